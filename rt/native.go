// Package verifrt, native mode: draws come from the JSON vector named by VERIF_VECTOR, so the same
// harness source replays a solver counterexample against the natively compiled repository code.
package verifrt

import (
	"runtime"
	"time"
	"encoding/hex"
	"encoding/json"
	"fmt"
	"os"
)

var vec []uint64
var pos int
var loaded bool

func Reset() { pos = 0; Failed = nil; Observed = nil; lastPanic = "" }

func SetVector(v []uint64) { vec = v; loaded = true; Reset() }

func load() {
	if !loaded {
		loaded = true
		b, err := os.ReadFile(os.Getenv("VERIF_VECTOR"))
		if err != nil {
			panic(err)
		}
		if err := json.Unmarshal(b, &vec); err != nil {
			panic(err)
		}
	}
}

type Exhausted struct{}

func next() uint64 {
	load()
	if pos >= len(vec) {
		panic(Exhausted{})
	}
	v := vec[pos]
	pos++
	return v
}

func Byte() byte   { return byte(next()) }
func U16() uint16  { return uint16(next()) }
func U32() uint32  { return uint32(next()) }
func U64() uint64  { return next() }
func I32() int32   { return int32(uint32(next())) }
func I64() int64   { return int64(next()) }
func Int() int     { return int(next()) }
func Bool() bool   { return next() != 0 }

// ByteIn draws a byte of the alphabet: a vector value that already is a member is taken as is (solver
// models), anything else is reduced into the alphabet (random validation vectors).
func ByteIn(alphabet string) byte {
	v := next()
	for i := 0; i < len(alphabet); i++ {
		if uint64(alphabet[i]) == v {
			return alphabet[i]
		}
	}
	return alphabet[v%uint64(len(alphabet))]
}
func Bytes(n int) []byte {
	b := make([]byte, n)
	for i := range b {
		b[i] = Byte()
	}
	return b
}
func String(n int) string { return string(Bytes(n)) }
// Len and Choice reduce the drawn word into range, so that any vector is a valid input (the engine
// does the same in -vector mode; solver models are already in range).
func Len(max int) int  { return int(next() % uint64(max+1)) }
func Choice(n int) int { return int(next() % uint64(n)) }

type AssumeViolated struct{}

func Assume(c bool) {
	if !c {
		panic(AssumeViolated{})
	}
}

var Failed []string
var Observed []string

func Assert(c bool, tag string) {
	if !c {
		Failed = append(Failed, tag)
	}
}
func Cover(tag string)            {}
func Symbolic() bool              { return false }
func And(a, b bool) bool          { return a && b }
func Or(a, b bool) bool           { return a || b }
func Not(a bool) bool             { return !a }
func Implies(a, b bool) bool      { return !a || b }
func IteByte(c bool, a, b byte) byte {
	if c {
		return a
	}
	return b
}
func IteInt(c bool, a, b int) int {
	if c {
		return a
	}
	return b
}
func SameString(a, b string) bool { return a == b }
func SameBytes(a, b []byte) bool {
	if len(a) != len(b) {
		return false
	}
	for i := range a {
		if a[i] != b[i] {
			return false
		}
	}
	return true
}

var lastPanic string

func Catch(f func()) (p bool) {
	defer func() {
		if r := recover(); r != nil {
			switch r.(type) {
			case AssumeViolated, Exhausted:
				panic(r)
			}
			p = true
			lastPanic = fmt.Sprint(r)
		}
	}()
	f()
	return false
}
func PanicMsg() string { return lastPanic }

// Terminates natively: f runs in its own goroutine under a 5 s watchdog (a stuck goroutine cannot be killed; it
// is left behind and the test reports the failure)
func Terminates(budget int, f func()) bool {
	done := make(chan interface{}, 1)
	go func() {
		defer func() { done <- recover() }()
		f()
	}()
	select {
	case r := <-done:
		if r != nil {
			panic(r)
		}
		return true
	case <-time.After(5 * time.Second):
		return false
	}
}
func ErrText(err error) string {
	if err == nil {
		return "<nil>"
	}
	return err.Error()
}
func Observe(tag string, b []byte) {
	Observed = append(Observed, tag+"="+hex.EncodeToString(b))
}
func AssumeCollisionFree() {}
var allocBudget int
var allocStart uint64

// AllocBudget starts measuring: AllocCheck later compares the bytes allocated since with the budget (with a
// generous factor, because the Go runtime and reflect allocate bookkeeping of their own).
func AllocBudget(bytes int) {
	allocBudget = bytes
	var m runtime.MemStats
	runtime.ReadMemStats(&m)
	allocStart = m.TotalAlloc
}

func AllocCheck() {
	var m runtime.MemStats
	runtime.ReadMemStats(&m)
	if allocBudget > 0 && m.TotalAlloc-allocStart > uint64(64*allocBudget)+(1<<20) {
		Failed = append(Failed, "allocation-proportional-to-input")
	}
}
func MapCandidates(ids []uint32) {}
func AllocSampling(small, large int) {}
func Note(s string)        {}

// provenance queries exist only inside the engine
func Sources(b []byte) string   { return "crypto" }
func Reseeded() bool            { return false }
func RandMayFail()              {}
func NonConstant(b []byte) bool { return true }

// Yield: scheduling point.  Natively the goroutines run freely; a short pause lets others in.
func Yield(tag string) { runtime.Gosched() }

// Quiesce: wait until the other goroutines of the scenario have stopped making progress.
func Quiesce() { time.Sleep(150 * time.Millisecond) }
func Threads() {}
func SwitchBudget(n int) {}

// Hook replaces a repository function by a harness function inside the engine only (no native effect).
func Hook(name string, f interface{}) {}

// SetClock pins the engine's clock stub; natively the real clock runs.
func SetClock(sec, nsec, stepNs int64) {}
func ClockYields(on bool)              {}
