// Package verifrt, symbolic mode: every function here is intercepted by the gosym engine
// (bodies are never executed).  The native twin is rt/native.go.
package verifrt

func Byte() byte                   { panic("engine") }
func U16() uint16                  { panic("engine") }
func U32() uint32                  { panic("engine") }
func U64() uint64                  { panic("engine") }
func I32() int32                   { panic("engine") }
func I64() int64                   { panic("engine") }
func Int() int                     { panic("engine") }
func Bool() bool                   { panic("engine") }
func ByteIn(alphabet string) byte  { panic("engine") }
func Bytes(n int) []byte           { panic("engine") }
func String(n int) string          { panic("engine") }
func Len(max int) int              { panic("engine") }
func Choice(n int) int             { panic("engine") }
func Assume(c bool)                {}
func Assert(c bool, tag string)    {}
func Cover(tag string)             {}
func Symbolic() bool               { return true }
func And(a, b bool) bool           { panic("engine") }
func Or(a, b bool) bool            { panic("engine") }
func Not(a bool) bool              { panic("engine") }
func Implies(a, b bool) bool       { panic("engine") }
func IteByte(c bool, a, b byte) byte { panic("engine") }
func IteInt(c bool, a, b int) int   { panic("engine") }
func SameBytes(a, b []byte) bool   { panic("engine") }
func SameString(a, b string) bool  { panic("engine") }
func Catch(f func()) bool          { panic("engine") }
func Terminates(budget int, f func()) bool { panic("engine") }
func PanicMsg() string             { panic("engine") }
func ErrText(err error) string     { panic("engine") }
func Observe(tag string, b []byte) {}
func AssumeCollisionFree()         {}
func AllocBudget(bytes int)        {}
func AllocCheck()                  {}
func MapCandidates(ids []uint32)   {}
func AllocSampling(small, large int) {}
func Note(s string)                {}
func Sources(b []byte) string      { panic("engine") }
func Reseeded() bool               { panic("engine") }

// RandMayFail: from here on every draw from crypto/rand may also fail (error, no bytes).
func RandMayFail() { panic("engine") }
func NonConstant(b []byte) bool    { panic("engine") }
func Yield(tag string)             {}
func Quiesce()                     {}
func SwitchBudget(n int)           {}
func Threads()                     {}
func Hook(name string, f interface{}) {}
func SetClock(sec, nsec, stepNs int64) {}
func ClockYields(on bool)          {}
