//go:build verif

package deeplinks

import (
	"net/url"

	"github.com/xelaj/mtproto/telegram/deeplinks/internal/verifrt"
)

var refHosts = []string{"telegram.me", "telegram.dog", "t.me", "tx.me", "telesco.pe"}

func isAlnum(c byte) bool {
	return verifrt.Or(verifrt.Or(verifrt.And(c >= 'a', c <= 'z'), verifrt.And(c >= 'A', c <= 'Z')), verifrt.And(c >= '0', c <= '9'))
}

// hostChar / segChar: the characters url.Parse passes through unchanged into Host / Path
func hostChar(c byte) bool { return verifrt.Or(isAlnum(c), verifrt.Or(c == '.', c == '-')) }
func segChar(c byte) bool {
	return verifrt.Or(isAlnum(c), verifrt.Or(verifrt.Or(c == '.', c == '-'), verifrt.Or(c == '_', c == '~')))
}

const hostAlpha = "-.0123456789ABCDEFGHIJKLMNOPQRSTUVWXYZabcdefghijklmnopqrstuvwxyz"
const segAlpha = "-.0123456789ABCDEFGHIJKLMNOPQRSTUVWXYZ_abcdefghijklmnopqrstuvwxyz~"

func symString(maxlen int, alpha string) string {
	n := verifrt.Len(maxlen)
	b := make([]byte, n)
	for i := range b {
		b[i] = verifrt.ByteIn(alpha)
	}
	return string(b)
}

func refLower(s string) string {
	b := []byte(s)
	for i := range b {
		b[i] = verifrt.IteByte(verifrt.And(b[i] >= 'A', b[i] <= 'Z'), b[i]+32, b[i])
	}
	return string(b)
}

func refOwned(host string) bool {
	for _, h := range refHosts {
		if len(host) == len(h) && verifrt.SameString(host, h) {
			return true
		}
	}
	return false
}

// resolve runs the code under test: symbolically the post-parse function on the URL value that url.Parse
// yields for scheme://host+port+path (or for the scheme-less text); natively the public Resolve on the text.
func resolve(scheme, host, port, path string) (d Deeplink, err error, pn bool) {
	pn = verifrt.Catch(func() {
		if verifrt.Symbolic() {
			if scheme == "" {
				d, err = resolveHttpLink(&url.URL{Path: host + port + path})
			} else {
				d, err = resolveHttpLink(&url.URL{Scheme: scheme, Host: host + port, Path: path})
			}
		} else {
			link := host + port + path
			if scheme != "" {
				link = scheme + "://" + link
			}
			d, err = Resolve(link)
		}
	})
	return
}

// expectation of the statement for a host (without port) and path segments
func expect(tag string, d Deeplink, err error, host string, segs []string) {
	owned := refOwned(host)
	if !owned {
		if refOwned(refLower(host)) {
			// a reserved host spelled with upper-case ASCII letters: host names are case-insensitive, so this is
			// arguably the same Telegram-owned host; the statement does not say, and neither accepting nor
			// refusing it is held against the library - but if it is accepted, the answer must be the right one
			verifrt.Cover("reserved-host-in-other-case")
			if err != nil {
				return
			}
		} else {
			verifrt.Assert(err != nil, tag+"foreign-host-is-error")
			return
		}
	}
	switch {
	case len(segs) == 1 && len(segs[0]) > 0:
		verifrt.Cover("username")
		verifrt.Assert(err == nil, tag+"username-resolves")
		r, ok := d.(*ResolveParameters)
		verifrt.Assert(ok, tag+"username-kind")
		if ok {
			verifrt.Assert(verifrt.SameString(r.Domain, refLower(segs[0])), tag+"username-lowercased")
			verifrt.Assert(verifrt.And(r.Start == "", verifrt.And(r.Post == 0, verifrt.And(r.Thread == 0, r.Comment == 0))), tag+"username-nothing-else")
		}
	case len(segs) == 2 && len(segs[1]) > 0 && verifrt.SameString(segs[0], "joinchat"):
		verifrt.Cover("invite")
		verifrt.Assert(err == nil, tag+"invite-resolves")
		j, ok := d.(*JoinParameters)
		verifrt.Assert(ok, tag+"invite-kind")
		if ok {
			verifrt.Assert(verifrt.SameString(j.Invite, segs[1]), tag+"invite-token")
		}
	default:
		verifrt.Cover("other-shape")
		verifrt.Assert(err != nil, tag+"other-path-shape-is-error")
	}
}

func pathOf(segs []string) string {
	p := ""
	for _, s := range segs {
		p += "/" + s
	}
	return p
}

// H_C20_paths: reserved host, every path of k segments of length 0..seglen.
func H_C20_paths(schemeSel, hostSel, k, seglen int) {
	scheme := []string{"", "http", "https"}[schemeSel]
	host := refHosts[hostSel]
	segs := make([]string, k)
	for i := range segs {
		segs[i] = symString(seglen, segAlpha)
	}
	d, err, pn := resolve(scheme, host, "", pathOf(segs))
	verifrt.Assert(!pn, "paths-no-panic")
	if pn {
		return
	}
	expect("paths-", d, err, host, segs)
}

// H_C20_joinchat: /joinchat/<token> with a symbolic token, and a symbolic first segment of the same length.
func H_C20_joinchat(schemeSel, toklen int) {
	scheme := []string{"", "http", "https"}[schemeSel]
	first := "joinchat"
	if verifrt.Bool() {
		fb := make([]byte, 8)
		for i := range fb {
			fb[i] = verifrt.ByteIn(segAlpha)
		}
		first = string(fb)
	}
	segs := []string{first, symString(toklen, segAlpha)}
	d, err, pn := resolve(scheme, "t.me", "", pathOf(segs))
	verifrt.Assert(!pn, "joinchat-no-panic")
	if pn {
		return
	}
	expect("joinchat-", d, err, "t.me", segs)
}

// H_C20_hosts: arbitrary host text (look-alikes included) with an optional port, two fixed path shapes.
func H_C20_hosts(schemeSel, hostlen, portSel, pathSel int) {
	scheme := []string{"http", "https"}[schemeSel]
	host := symString(hostlen, hostAlpha)
	port := []string{"", ":", ":443", ":8080"}[portSel]
	segs := [][]string{{"Durov"}, {"joinchat", "AbC-12_"}, {}}[pathSel]
	d, err, pn := resolve(scheme, host, port, pathOf(segs))
	verifrt.Assert(!pn, "hosts-no-panic")
	if pn {
		return
	}
	expect("hosts-", d, err, host, segs)
}

// H_C20_schemeless: text without scheme: host part (no port), then 0..2 segments; includes the bare host.
func H_C20_schemeless(hostlen, k int) {
	var host string
	if verifrt.Bool() {
		host = refHosts[verifrt.Choice(len(refHosts))]
	} else {
		host = symString(hostlen, hostAlpha)
	}
	segs := make([]string, k)
	for i := range segs {
		segs[i] = symString(2, segAlpha)
	}
	d, err, pn := resolve("", host, "", pathOf(segs))
	verifrt.Assert(!pn, "schemeless-no-panic")
	if pn {
		return
	}
	if len(host) == 0 {
		verifrt.Assert(err != nil, "schemeless-no-host-is-error")
		return
	}
	expect("schemeless-", d, err, host, segs)
}

// H_C20_after_caller_edit: an application took the list of reserved hosts from the exported ReservedHosts(),
// and edited its copy (entry k replaced by an arbitrary string, e.g. to build its own URL table).  Which hosts
// are Telegram-owned does not change: every owned host still resolves, the edited-in string does not.
func H_C20_after_caller_edit(k, hostlen int) {
	lst := ReservedHosts()
	if k >= len(lst) {
		verifrt.Assert(len(lst) > 0, "reserved-hosts-listed")
		return
	}
	owned := lst[k]
	edited := symString(hostlen, hostAlpha)
	lst[k] = edited
	segs := [][]string{{"Durov"}, {"joinchat", "AbC-12_"}}[verifrt.Choice(2)]
	d, err, pn := resolve("https", owned, "", pathOf(segs))
	verifrt.Assert(!pn, "edit-no-panic")
	if !pn {
		expect("edit-owned-", d, err, owned, segs)
	}
	d, err, pn = resolve("https", edited, "", pathOf(segs))
	verifrt.Assert(!pn, "edit-no-panic")
	if !pn {
		expect("edit-foreign-", d, err, edited, segs)
	}
}

// H_C20_unicode_lookalikes: hosts that differ from a reserved host only in a non-ASCII character which Unicode case
// folding or compatibility mapping sends to the ASCII one (long s, Kelvin sign, dotless i, full-width letters):
// they are foreign hosts (other IDNs), with any scheme, port and a symbolic username.
func H_C20_unicode_lookalikes(k, seglen int) {
	hosts := []string{"tele\u017fco.pe", "\u212a.me", "tele\u017fco.PE", "telegram.\u212a", "t.m\u0435", "\uff54.me", "telegram.d\u03bfg", "t\u0131.me"}
	if k >= len(hosts) {
		verifrt.Assert(true, "index-past-list")
		return
	}
	scheme := []string{"", "http", "https"}[verifrt.Choice(3)]
	port := []string{"", ":443"}[verifrt.Choice(2)]
	seg := symString(seglen, segAlpha)
	verifrt.Assume(len(seg) > 0)
	for _, path := range []string{"/" + seg, "/joinchat/" + seg} {
		d, err, pn := resolve(scheme, hosts[k], port, path)
		verifrt.Assert(!pn, "lookalike-no-panic")
		if pn {
			continue
		}
		_ = d
		verifrt.Assert(err != nil, "lookalike-foreign-host-is-error")
	}
}
