//go:build verif

package tl

import (
	"bytes"

	"github.com/xelaj/mtproto/internal/verifrt"
)

// TL byte-string serialisation written from the TL specification: one length byte below 254, otherwise 0xfe
// and three little-endian length bytes; zero padding to a multiple of four.
func refString(msg []byte) []byte {
	var out []byte
	n := len(msg)
	if n < 254 {
		out = append(out, byte(n))
	} else {
		out = append(out, 0xfe, byte(n), byte(n>>8), byte(n>>16))
	}
	out = append(out, msg...)
	for len(out)%4 != 0 {
		out = append(out, 0)
	}
	return out
}

// H_string: PutMessage writes exactly the specified form for every length lo..hi (contents symbolic when sym
// is set, zero otherwise), PopMessage reads it back and consumes exactly those bytes.
func H_string(lo, hi, sym int) {
	n := lo + verifrt.Len(hi-lo)
	var msg []byte
	if sym != 0 {
		msg = verifrt.Bytes(n)
	} else {
		msg = make([]byte, n)
		if n > 0 {
			msg[0], msg[n-1] = verifrt.Byte(), verifrt.Byte()
		}
	}
	buf := bytes.NewBuffer(nil)
	e := NewEncoder(buf)
	pn := verifrt.Catch(func() { e.PutMessage(msg) })
	verifrt.Assert(!pn, "putmessage-no-panic")
	if pn {
		return
	}
	verifrt.Assert(e.CheckErr() == nil, "putmessage-accepts-below-2^24")
	if e.CheckErr() != nil {
		return
	}
	wire := buf.Bytes()
	verifrt.Observe("wire", wire[:minInt(len(wire), 16)])
	verifrt.Assert(verifrt.SameBytes(wire, refString(msg)), "string-wire-form")
	tail := []byte{0xaa, 0xbb, 0xcc, 0xdd}
	d, _ := NewDecoder(bytes.NewReader(append(append([]byte{}, wire...), tail...)))
	var got []byte
	pn = verifrt.Catch(func() { got = d.PopMessage() })
	verifrt.Assert(!pn, "popmessage-no-panic")
	if pn {
		return
	}
	verifrt.Assert(d.err == nil, "popmessage-ok")
	verifrt.Assert(verifrt.SameBytes(got, msg), "popmessage-roundtrip")
	rest, _ := d.GetRestOfMessage()
	verifrt.Assert(verifrt.SameBytes(rest, tail), "popmessage-consumes-exactly-its-bytes")
}

func minInt(a, b int) int {
	if a < b {
		return a
	}
	return b
}

// H_string_last: the string is the last thing in the buffer (nothing follows it): same round trip.
func H_string_last(lo, hi int) {
	n := lo + verifrt.Len(hi-lo)
	msg := verifrt.Bytes(n)
	buf := bytes.NewBuffer(nil)
	e := NewEncoder(buf)
	e.PutMessage(msg)
	verifrt.Assert(e.CheckErr() == nil, "putmessage-ok")
	d, _ := NewDecoder(bytes.NewReader(buf.Bytes()))
	var got []byte
	pn := verifrt.Catch(func() { got = d.PopMessage() })
	verifrt.Assert(!pn, "popmessage-last-no-panic")
	if pn {
		return
	}
	verifrt.Assert(d.err == nil, "popmessage-last-ok")
	verifrt.Assert(verifrt.SameBytes(got, msg), "popmessage-last-roundtrip")
	rest, _ := d.GetRestOfMessage()
	verifrt.Assert(len(rest) == 0, "popmessage-last-consumes-everything")
}

// H_string_too_large: a byte string of 2^24 bytes or more is refused rather than mis-encoded.
func H_string_too_large(extra int) {
	n := 1<<24 + extra
	msg := make([]byte, n)
	buf := bytes.NewBuffer(nil)
	e := NewEncoder(buf)
	pn := verifrt.Catch(func() { e.PutMessage(msg) })
	verifrt.Assert(!pn, "putmessage-huge-no-panic")
	if pn {
		return
	}
	verifrt.Assert(e.CheckErr() != nil, "string-of-2^24-bytes-or-more-refused")
	verifrt.Assert(buf.Len() == 0, "refused-string-writes-nothing")
}

// H_padding: non-zero padding bytes after a string are rejected, truncated strings are errors (never a panic)
func H_popmessage_arbitrary(maxlen int) {
	n := verifrt.Len(maxlen)
	data := verifrt.Bytes(n)
	d, _ := NewDecoder(bytes.NewReader(data))
	var got []byte
	verifrt.AllocBudget(16*n + 4096)
	verifrt.AllocSampling(12, 2)
	pn := verifrt.Catch(func() { got = d.PopMessage() })
	verifrt.AllocCheck()
	verifrt.Assert(!pn, "popmessage-arbitrary-no-panic")
	if pn || d.err != nil {
		return
	}
	verifrt.Cover("accepted")
	// accepted => the header (either form) announces a length that lies inside the input, and the returned
	// bytes are exactly those bytes
	hdr, L := 1, int(data[0])
	if data[0] == 0xfe {
		verifrt.Assert(n >= 4, "accepted-long-form-has-header")
		if n < 4 {
			return
		}
		hdr, L = 4, int(data[1])|int(data[2])<<8|int(data[3])<<16
	}
	verifrt.Assert(len(got) == L, "accepted-length-is-announced-length")
	verifrt.Assert(hdr+L <= n, "accepted-string-inside-input")
	if len(got) == L && hdr+L <= n {
		verifrt.Assert(verifrt.SameBytes(got, data[hdr:hdr+L]), "accepted-string-content")
	}
}

// H_strings_sequence: ONE encoder writes cnt byte strings one after another (each of every length lo..hi, contents
// symbolic) - the strings of one value share the encoder, and whatever the encoder keeps between two strings
// (scratch buffers, counters) must not show on the wire: the output is the concatenation of the specified forms
// (zero padding included), and one decoder reads the same strings back in order and ends exactly at the tail.
func H_strings_sequence(cnt, lo, hi int) {
	msgs := make([][]byte, cnt)
	var want []byte
	for i := range msgs {
		msgs[i] = verifrt.Bytes(lo + verifrt.Len(hi-lo))
		want = append(want, refString(msgs[i])...)
	}
	buf := bytes.NewBuffer(nil)
	e := NewEncoder(buf)
	pn := verifrt.Catch(func() {
		for _, m := range msgs {
			e.PutMessage(m)
		}
	})
	verifrt.Assert(!pn, "sequence-putmessage-no-panic")
	if pn {
		return
	}
	verifrt.Assert(e.CheckErr() == nil, "sequence-putmessage-ok")
	if e.CheckErr() != nil {
		return
	}
	wire := buf.Bytes()
	verifrt.Assert(len(wire) == len(want), "sequence-wire-length")
	verifrt.Assert(verifrt.SameBytes(wire, want), "sequence-wire-form")
	tail := []byte{0xaa, 0xbb, 0xcc, 0xdd}
	d, _ := NewDecoder(bytes.NewReader(append(append([]byte{}, want...), tail...)))
	for i := range msgs {
		var got []byte
		pn = verifrt.Catch(func() { got = d.PopMessage() })
		verifrt.Assert(!pn, "sequence-popmessage-no-panic")
		if pn {
			return
		}
		verifrt.Assert(d.err == nil, "sequence-popmessage-ok")
		verifrt.Assert(verifrt.SameBytes(got, msgs[i]), "sequence-popmessage-roundtrip")
	}
	rest, _ := d.GetRestOfMessage()
	verifrt.Assert(verifrt.SameBytes(rest, tail), "sequence-consumes-exactly-its-bytes")
}
