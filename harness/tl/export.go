//go:build verif

package tl

import (
	"reflect"
	"sort"
)

// read-only view of the constructor registry of the current tree (overlay file; never written into /repo)

func VerifRegistry() map[uint32]reflect.Type { return objectByCrc }

func VerifIsEnum(crc uint32) bool { _, ok := enumCrcs[crc]; return ok }

// VerifSortedCrcs lists the registered ids in increasing order (deterministic enumeration).
func VerifSortedCrcs() []uint32 {
	out := make([]uint32, 0, len(objectByCrc))
	for k := range objectByCrc {
		out = append(out, k)
	}
	sort.Slice(out, func(i, j int) bool { return out[i] < out[j] })
	return out
}
