//go:build verif

package mode

import (
	"io"

	"github.com/xelaj/mtproto/internal/verifrt"
)

// fakeConn is the peer-side byte stream under the exact-count read contract of tcpConn.Read (each Read(p)
// delivers exactly len(p) bytes, or reports the end of the stream).
type fakeConn struct {
	in  []byte
	out []byte
}

func (c *fakeConn) Write(p []byte) (int, error) {
	c.out = append(c.out, p...)
	return len(p), nil
}

func (c *fakeConn) Read(p []byte) (int, error) {
	if len(p) == 0 {
		return 0, nil
	}
	if len(c.in) == 0 {
		return 0, io.EOF
	}
	if len(c.in) < len(p) {
		return 0, io.ErrUnexpectedEOF
	}
	copy(p, c.in[:len(p)])
	c.in = c.in[len(p):]
	return len(p), nil
}

func refAbridgedFrame(msg []byte) []byte {
	w := len(msg) / 4
	var h []byte
	if w < 127 {
		h = []byte{byte(w)}
	} else {
		h = []byte{0x7f, byte(w), byte(w >> 8), byte(w >> 16)}
	}
	return append(h, msg...)
}

func refIntermediateFrame(msg []byte) []byte {
	n := len(msg)
	return append([]byte{byte(n), byte(n >> 8), byte(n >> 16), byte(n >> 24)}, msg...)
}

func variantOf(v int) Variant {
	if v == 0 {
		return Abridged
	}
	return Intermediate
}

// H_C08_write: announcement first, then exactly the specified frame, for every word count lo..hi.
func H_C08_write(v, lo, hi int) {
	w := lo + verifrt.Len(hi-lo)
	msg := verifrt.Bytes(4 * w)
	conn := &fakeConn{}
	var m Mode
	var err error
	pn := verifrt.Catch(func() { m, err = New(variantOf(v), conn) })
	verifrt.Assert(!pn, "new-no-panic")
	if pn {
		return
	}
	verifrt.Assert(err == nil, "new-no-error")
	if err != nil {
		return
	}
	var ann []byte
	if v == 0 {
		ann = []byte{0xef}
	} else {
		ann = []byte{0xee, 0xee, 0xee, 0xee}
	}
	verifrt.Assert(verifrt.SameBytes(conn.out, ann), "announcement-written-first")
	pn = verifrt.Catch(func() { err = m.WriteMsg(msg) })
	verifrt.Assert(!pn, "write-no-panic")
	if pn {
		return
	}
	verifrt.Assert(err == nil, "write-accepts-multiple-of-4")
	var want []byte
	if v == 0 {
		want = append(ann, refAbridgedFrame(msg)...)
	} else {
		want = append(ann, refIntermediateFrame(msg)...)
	}
	verifrt.Observe("stream", conn.out)
	verifrt.Assert(verifrt.SameBytes(conn.out, want), "frame-as-specified")
}

// H_C08_bigframe: large frames (word counts lo..hi) with zero payload except symbolic first and last bytes:
// header as specified, and the peer reads the same message back.
func H_C08_bigframe(v, lo, hi int) {
	w := lo + verifrt.Len(hi-lo)
	msg := make([]byte, 4*w)
	if w > 0 {
		msg[0], msg[4*w-1] = verifrt.Byte(), verifrt.Byte()
	}
	conn := &fakeConn{}
	m, err := initMode(variantOf(v), conn)
	verifrt.Assert(err == nil, "new-no-error")
	if err != nil {
		return
	}
	pn := verifrt.Catch(func() { err = m.WriteMsg(msg) })
	verifrt.Assert(!pn && err == nil, "bigframe-write-ok")
	if pn || err != nil {
		return
	}
	var hdr []byte
	if v == 0 {
		hdr = refAbridgedFrame(nil)
		if w >= 127 {
			hdr = []byte{0x7f, byte(w), byte(w >> 8), byte(w >> 16)}
		} else {
			hdr = []byte{byte(w)}
		}
	} else {
		n := 4 * w
		hdr = []byte{byte(n), byte(n >> 8), byte(n >> 16), byte(n >> 24)}
	}
	verifrt.Assert(len(conn.out) == len(hdr)+len(msg), "bigframe-length")
	if len(conn.out) >= len(hdr) {
		verifrt.Observe("hdr", conn.out[:len(hdr)])
		verifrt.Assert(verifrt.SameBytes(conn.out[:len(hdr)], hdr), "bigframe-header-as-specified")
	}
	peer, _ := initMode(variantOf(v), &fakeConn{in: conn.out})
	var got []byte
	pn = verifrt.Catch(func() { got, err = peer.ReadMsg() })
	verifrt.Assert(!pn && err == nil, "bigframe-read-ok")
	if !pn && err == nil {
		verifrt.Assert(len(got) == len(msg), "bigframe-read-length")
		if len(got) == len(msg) && w > 0 {
			verifrt.Assert(got[0] == msg[0] && got[4*w-1] == msg[4*w-1], "bigframe-read-ends")
		}
	}
}

// H_C08_unaligned: abridged refuses lengths that are not a multiple of 4 and writes nothing; intermediate
// carries every length.
func H_C08_unaligned(v, maxlen int) {
	n := verifrt.Len(maxlen)
	msg := verifrt.Bytes(n)
	conn := &fakeConn{}
	m, err := New(variantOf(v), conn)
	verifrt.Assert(err == nil, "new-no-error")
	if err != nil {
		return
	}
	before := len(conn.out)
	pn := verifrt.Catch(func() { err = m.WriteMsg(msg) })
	verifrt.Assert(!pn, "unaligned-write-no-panic")
	if pn {
		return
	}
	if v == 0 && n%4 != 0 {
		verifrt.Assert(err != nil, "abridged-refuses-unaligned")
		verifrt.Assert(len(conn.out) == before, "refused-message-writes-nothing")
	} else {
		verifrt.Assert(err == nil, "aligned-or-intermediate-accepted")
		if v == 1 {
			verifrt.Assert(verifrt.SameBytes(conn.out[before:], refIntermediateFrame(msg)), "intermediate-frame-any-length")
		}
	}
}

// H_C08_roundtrip: k messages written through a mode are read back by the detecting peer as the same
// sequence, the stream is then exhausted, and the next read reports end-of-stream (not a message).
func H_C08_roundtrip(v, k, lo, hi int) {
	a := &fakeConn{}
	m, err := New(variantOf(v), a)
	verifrt.Assert(err == nil, "new-no-error")
	if err != nil {
		return
	}
	msgs := make([][]byte, k)
	for i := 0; i < k; i++ {
		w := lo + verifrt.Len(hi-lo)
		msgs[i] = verifrt.Bytes(4 * w)
		err = m.WriteMsg(msgs[i])
		verifrt.Assert(err == nil, "write-ok")
	}
	b := &fakeConn{in: a.out}
	var peer Mode
	pn := verifrt.Catch(func() { peer, err = Detect(b) })
	verifrt.Assert(!pn, "detect-no-panic")
	if pn {
		return
	}
	verifrt.Assert(err == nil, "detect-recognises-own-announcement")
	if err != nil {
		return
	}
	pv, _ := GetVariant(peer)
	verifrt.Assert(pv == variantOf(v), "detect-same-variant")
	for i := 0; i < k; i++ {
		var got []byte
		pn = verifrt.Catch(func() { got, err = peer.ReadMsg() })
		verifrt.Assert(!pn, "read-no-panic")
		if pn {
			return
		}
		verifrt.Assert(err == nil, "read-ok")
		verifrt.Observe("msg", got)
		verifrt.Assert(verifrt.SameBytes(got, msgs[i]), "read-same-message-in-order")
	}
	verifrt.Assert(len(b.in) == 0, "stream-fully-consumed")
	var got []byte
	pn = verifrt.Catch(func() { got, err = peer.ReadMsg() })
	verifrt.Assert(!pn, "eof-no-panic")
	if !pn {
		verifrt.Assert(err == io.EOF, "end-of-stream-reported-as-EOF")
		verifrt.Assert(got == nil, "end-of-stream-is-not-a-message")
	}
}

// H_C08_readframe: ReadMsg on an arbitrary header followed by enough payload: returns exactly the bytes the
// header announces (abridged: 1-byte count or 0x7f + 3 bytes LE, in words; intermediate: 4 bytes LE).
func H_C08_readframe(v, maxwords int) {
	var hdr []byte
	var words int
	if v == 0 {
		if verifrt.Bool() {
			b := verifrt.Byte()
			verifrt.Assume(b != 0x7f)
			verifrt.Assume(int(b) <= maxwords)
			hdr = []byte{b}
			words = int(b)
		} else {
			l0, l1, l2 := verifrt.Byte(), verifrt.Byte(), verifrt.Byte()
			words = int(l0) | int(l1)<<8 | int(l2)<<16
			verifrt.Assume(words <= maxwords)
			hdr = []byte{0x7f, l0, l1, l2}
		}
	} else {
		n := verifrt.U32()
		verifrt.Assume(n <= uint32(4*maxwords))
		verifrt.Assume(n%4 == 0)
		hdr = []byte{byte(n), byte(n >> 8), byte(n >> 16), byte(n >> 24)}
		words = int(n / 4)
	}
	w := verifrt.Len(maxwords)
	verifrt.Assume(w == words)
	payload := verifrt.Bytes(4 * w)
	tail := verifrt.Bytes(3)
	conn := &fakeConn{in: append(append(append([]byte{}, hdr...), payload...), tail...)}
	m, _ := initMode(variantOf(v), conn)
	var got []byte
	var err error
	pn := verifrt.Catch(func() { got, err = m.ReadMsg() })
	verifrt.Assert(!pn, "readframe-no-panic")
	if pn {
		return
	}
	verifrt.Assert(err == nil, "readframe-ok")
	verifrt.Assert(verifrt.SameBytes(got, payload), "readframe-exact-payload")
	verifrt.Assert(verifrt.SameBytes(conn.in, tail), "readframe-leaves-following-bytes")
}

// H_C08_detect: arbitrary first bytes: abridged iff 0xef, intermediate iff eeeeeeee, else an error.
func H_C08_detect(n int) {
	first := verifrt.Bytes(n)
	conn := &fakeConn{in: append([]byte{}, first...)}
	var m Mode
	var err error
	pn := verifrt.Catch(func() { m, err = Detect(conn) })
	verifrt.Assert(!pn, "detect-arbitrary-no-panic")
	if pn {
		return
	}
	isA := n >= 1 && first[0] == 0xef
	isI := false
	if n >= 4 {
		isI = verifrt.And(verifrt.And(first[0] == 0xee, first[1] == 0xee), verifrt.And(first[2] == 0xee, first[3] == 0xee))
	}
	if err == nil {
		v, _ := GetVariant(m)
		verifrt.Assert(verifrt.Implies(v == Abridged, isA), "abridged-only-for-ef")
		verifrt.Assert(verifrt.Implies(v == Intermediate, isI), "intermediate-only-for-eeeeeeee")
		verifrt.Assert(verifrt.Or(v == Abridged, v == Intermediate), "detected-known-variant")
	} else {
		verifrt.Assert(verifrt.Not(verifrt.Or(isA, isI)), "announcement-recognised")
	}
}

// H_C08_sequence: ONE writer and ONE reader object carry a sequence of frames whose headers differ in form
// and in every length byte: big (lo..hi words, zero payload with symbolic ends), small (0..3 symbolic words),
// big, small.  Whatever a mode object remembers from an earlier frame (scratch buffers, lengths) must not
// leak into a later one: every message is read back identical and in order, then end-of-stream.
func H_C08_sequence(v, lo, hi int) {
	a := &fakeConn{}
	m, err := New(variantOf(v), a)
	verifrt.Assert(err == nil, "new-no-error")
	if err != nil {
		return
	}
	var msgs [][]byte
	for i := 0; i < 4; i++ {
		var msg []byte
		if i%2 == 0 {
			w := lo + verifrt.Len(hi-lo)
			msg = make([]byte, 4*w)
			if w > 0 {
				msg[0], msg[4*w-1] = verifrt.Byte(), verifrt.Byte()
			}
		} else {
			msg = verifrt.Bytes(4 * verifrt.Len(3))
		}
		msgs = append(msgs, msg)
		pn := verifrt.Catch(func() { err = m.WriteMsg(msg) })
		verifrt.Assert(!pn && err == nil, "sequence-write-ok")
		if pn || err != nil {
			return
		}
	}
	b := &fakeConn{in: a.out}
	var peer Mode
	pn := verifrt.Catch(func() { peer, err = Detect(b) })
	verifrt.Assert(!pn && err == nil, "sequence-detect-ok")
	if pn || err != nil {
		return
	}
	for i := range msgs {
		var got []byte
		pn = verifrt.Catch(func() { got, err = peer.ReadMsg() })
		verifrt.Assert(!pn, "sequence-read-no-panic")
		if pn {
			return
		}
		verifrt.Assert(err == nil, "sequence-read-ok")
		if err != nil {
			return
		}
		verifrt.Assert(len(got) == len(msgs[i]), "sequence-read-same-length-in-order")
		if len(got) != len(msgs[i]) {
			return
		}
		if len(got) <= 12 {
			verifrt.Assert(verifrt.SameBytes(got, msgs[i]), "sequence-read-same-message")
		} else {
			verifrt.Assert(got[0] == msgs[i][0] && got[len(got)-1] == msgs[i][len(got)-1], "sequence-read-same-ends")
		}
	}
	verifrt.Assert(len(b.in) == 0, "sequence-stream-fully-consumed")
	pn = verifrt.Catch(func() { _, err = peer.ReadMsg() })
	verifrt.Assert(!pn && err == io.EOF, "sequence-end-of-stream")
}
