//go:build verif

package session

import (
	"os"
	"path/filepath"
	"time"

	"github.com/xelaj/errs"

	"github.com/xelaj/mtproto/internal/verifrt"
)

const hostAlpha = "-.0123456789:ABCDEFGHIJKLMNOPQRSTUVWXYZ[]_abcdefghijklmnopqrstuvwxyz"

func symSession(keyLen, hashLen, hostLen int) *Session {
	hb := make([]byte, hostLen)
	for i := range hb {
		hb[i] = verifrt.ByteIn(hostAlpha)
	}
	return &Session{Key: verifrt.Bytes(keyLen), Hash: verifrt.Bytes(hashLen), Salt: verifrt.I64(), Hostname: string(hb)}
}

func sameSession(a, b *Session) bool {
	if a == nil || b == nil {
		return false
	}
	r := verifrt.And(verifrt.SameBytes(a.Key, b.Key), verifrt.SameBytes(a.Hash, b.Hash))
	r = verifrt.And(r, a.Salt == b.Salt)
	return verifrt.And(r, verifrt.SameString(a.Hostname, b.Hostname))
}

// H_C12_codec: the file format round-trips every session (key/hash of the given lengths, every salt).
func H_C12_codec(keyLen, hashLen, hostLen int) {
	s := symSession(keyLen, hashLen, hostLen)
	f := new(tokenStorageFormat)
	f.writeSession(s)
	var back *Session
	var err error
	pn := verifrt.Catch(func() { back, err = f.readSession() })
	verifrt.Assert(!pn, "codec-no-panic")
	if pn {
		return
	}
	verifrt.Assert(err == nil, "codec-reads-what-it-wrote")
	if err == nil {
		verifrt.Observe("key", back.Key)
		verifrt.Assert(sameSession(s, back), "codec-roundtrip")
	}
	// salt is stored as 8 little-endian bytes in base64
	verifrt.Assert(len(f.Salt) == 12, "salt-field-is-base64-of-8-bytes")
}

func tmpDir() string {
	d, err := os.MkdirTemp("", "verif-session")
	if err != nil {
		panic(err)
	}
	return d
}

// H_C12_store_load: Store then Load (same loader and a fresh loader) returns the stored session; a second
// Store with any modification time t2 >= t1 (equal allowed: clock granularity) is what Load returns next.
func H_C12_store_load(keyLen, hostLen, sameLoader int) { storeLoad(keyLen, hostLen, keyLen, hostLen, sameLoader) }

// H_C12_store_load2: the second session has a different size (shorter or longer) than the first.
func H_C12_store_load2(keyLen1, hostLen1, keyLen2, hostLen2 int) {
	storeLoad(keyLen1, hostLen1, keyLen2, hostLen2, 1)
}

func storeLoad(keyLen, hostLen, keyLen2, hostLen2, sameLoader int) {
	dir := tmpDir()
	defer os.RemoveAll(dir)
	path := filepath.Join(dir, "session.json")
	s1 := symSession(keyLen, 8, hostLen)
	s2 := symSession(keyLen2, 8, hostLen2)
	t1 := int64(verifrt.U32())
	dt := int64(verifrt.Byte())
	l := NewFromFile(path)
	verifrt.Assert(l.Store(s1) == nil, "store-succeeds")
	_ = os.Chtimes(path, time.Unix(t1, 0), time.Unix(t1, 0))
	got, err := l.Load()
	verifrt.Assert(err == nil && sameSession(s1, got), "load-returns-the-stored-session")
	fresh, err := NewFromFile(path).Load()
	verifrt.Assert(err == nil && sameSession(s1, fresh), "fresh-loader-returns-the-stored-session")
	verifrt.Assert(l.Store(s2) == nil, "second-store-succeeds")
	_ = os.Chtimes(path, time.Unix(t1+dt, 0), time.Unix(t1+dt, 0))
	reader := l
	if sameLoader == 0 {
		reader = NewFromFile(path)
	}
	got2, err := reader.Load()
	verifrt.Assert(err == nil, "load-after-second-store-ok")
	if err == nil {
		verifrt.Assert(sameSession(s2, got2), "last-store-wins")
	}
}

// H_C12_missing: a missing file is reported as not found.
func H_C12_missing() {
	dir := tmpDir()
	defer os.RemoveAll(dir)
	s, err := NewFromFile(filepath.Join(dir, "nothing.json")).Load()
	verifrt.Assert(s == nil && err != nil, "missing-file-is-an-error")
	verifrt.Assert(errs.IsNotFound(err), "missing-file-is-not-found")
}

// H_C12_paths: every path whose directory exists can be stored to: relative, absolute, bare file name.
func H_C12_paths(kind int) {
	dir := tmpDir()
	defer os.RemoveAll(dir)
	old, _ := os.Getwd()
	defer os.Chdir(old)
	_ = os.Chdir(dir)
	_ = os.Mkdir(filepath.Join(dir, "sub"), 0o700)
	path := []string{"session.json", "./session.json", "sub/session.json", filepath.Join(dir, "session.json"), filepath.Join(dir, "sub", "session.json")}[kind]
	s := symSession(4, 4, 3)
	l := NewFromFile(path)
	var err error
	pn := verifrt.Catch(func() { err = l.Store(s) })
	verifrt.Assert(!pn, "store-no-panic")
	if pn {
		return
	}
	if err != nil {
		verifrt.Note("store error: " + verifrt.ErrText(err))
	}
	verifrt.Assert(err == nil, "store-to-existing-directory-succeeds")
	if err == nil {
		got, err := NewFromFile(path).Load()
		verifrt.Assert(err == nil && sameSession(s, got), "stored-session-read-back")
	}
}

// H_C12_truncated: the file cut short at every byte (a crash while writing) is an error, never a session.
func H_C12_truncated(keyLen, hostLen int) {
	dir := tmpDir()
	defer os.RemoveAll(dir)
	path := filepath.Join(dir, "session.json")
	s := symSession(keyLen, 8, hostLen)
	verifrt.Assert(NewFromFile(path).Store(s) == nil, "store-succeeds")
	info, _ := os.Stat(path)
	n := int(info.Size())
	_ = os.Chtimes(path, time.Unix(info.ModTime().Unix(), 0), time.Unix(info.ModTime().Unix(), 0)) // whole seconds
	info, _ = os.Stat(path)
	cut := verifrt.Len(n - 1)
	// the loader that meets the torn file is a fresh one, or one that has read the intact file before (a
	// long-running process whose session file is damaged later); it is asked more than once
	ld := NewFromFile(path)
	if verifrt.Bool() {
		got0, err0 := ld.Load()
		verifrt.Assert(err0 == nil && got0 != nil, "intact-file-loads")
	}
	_ = os.Truncate(path, int64(cut))
	// the damage is later than the earlier read by more than the file system's timestamp granularity (a loader
	// that trusts modification times cannot notice a change inside one tick; that is outside the claim)
	t1 := info.ModTime().Unix()
	dt := int64(verifrt.Byte())
	verifrt.Assume(dt > 0)
	_ = os.Chtimes(path, time.Unix(t1+dt, 0), time.Unix(t1+dt, 0))
	for attempt := 0; attempt < 2; attempt++ {
		var got *Session
		var err error
		pn := verifrt.Catch(func() { got, err = ld.Load() })
		verifrt.Assert(!pn, "truncated-file-no-panic")
		if !pn {
			verifrt.Assert(err != nil && got == nil, "truncated-file-is-an-error")
		}
	}
	var got *Session
	var err error
	pn := verifrt.Catch(func() { got, err = NewFromFile(path).Load() })
	verifrt.Assert(!pn, "truncated-file-no-panic")
	if !pn {
		verifrt.Assert(err != nil && got == nil, "truncated-file-is-an-error")
	}
}

// H_C12_two_loaders: two loader objects on one path used alternately (two clients, or a client and a tool, sharing
// a session file): A stores s1, B stores s2, A stores s1 again (variant 1: A only *loads* s1 first, then B stores
// s2, then A stores s1).  What a loader remembers about the file (a cache of the last content or time) must not make
// a Store a no-op: after every Store both loaders and a fresh one read back the session stored last.
func H_C12_two_loaders(keyLen, hostLen, variant int) {
	dir := tmpDir()
	defer os.RemoveAll(dir)
	path := filepath.Join(dir, "session.json")
	s1 := symSession(keyLen, 8, hostLen)
	s2 := symSession(keyLen, 8, hostLen)
	t1 := int64(verifrt.U32())
	dt := int64(verifrt.Byte())
	// a loader that trusts modification times cannot see a change made by SOMEBODY ELSE inside one timestamp tick:
	// that is outside the claim (as in H_C12_truncated); writes by different loaders are at least one tick apart
	verifrt.Assume(dt >= 1)
	a, b := NewFromFile(path), NewFromFile(path)
	// variant&2: between the stores only a fresh loader looks at the file (a loader that is asked in between
	// refreshes whatever it remembers, which hides what it would do when it is not asked)
	final := false
	check := func(want *Session, tag string) {
		for i, l := range []SessionLoader{a, b, NewFromFile(path)} {
			if variant&2 != 0 && !final && i < 2 {
				continue
			}
			got, err := l.Load()
			verifrt.Assert(err == nil, tag+"-load-ok")
			if err == nil {
				verifrt.Assert(sameSession(want, got), tag+"-last-store-wins-"+[]string{"first-loader", "second-loader", "fresh-loader"}[i])
			}
		}
	}
	if variant&1 == 1 {
		verifrt.Assert(NewFromFile(path).Store(s1) == nil, "store-succeeds")
		_ = os.Chtimes(path, time.Unix(t1, 0), time.Unix(t1, 0))
		got, err := a.Load()
		verifrt.Assert(err == nil && sameSession(s1, got), "load-returns-the-stored-session")
	} else {
		verifrt.Assert(a.Store(s1) == nil, "store-succeeds")
		_ = os.Chtimes(path, time.Unix(t1, 0), time.Unix(t1, 0))
		check(s1, "after-first-store")
	}
	verifrt.Assert(b.Store(s2) == nil, "store-by-second-loader-succeeds")
	_ = os.Chtimes(path, time.Unix(t1+dt, 0), time.Unix(t1+dt, 0))
	check(s2, "after-store-by-second-loader")
	verifrt.Assert(a.Store(s1) == nil, "store-again-by-first-loader-succeeds")
	_ = os.Chtimes(path, time.Unix(t1+2*dt, 0), time.Unix(t1+2*dt, 0))
	final = true
	check(s1, "after-store-again-by-first-loader")
}
