//go:build verif

package telegram

import (
	"math"
	"math/big"
)

func f64frombits(x uint64) float64 { return math.Float64frombits(x) }
func f64bits(f float64) uint64     { return math.Float64bits(f) }

func bigFromBytes(b []byte) *big.Int { return new(big.Int).SetBytes(b) }

// fixed-width big-endian bytes of a non-negative big.Int (the wire form of int128/int256)
func bigBytes(x *big.Int, n int) []byte {
	out := make([]byte, n)
	if x == nil {
		return out
	}
	return x.FillBytes(out)
}
