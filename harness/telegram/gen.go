//go:build verif

package telegram

// generic, reflection-driven value construction and comparison for the TL codec harnesses.  Runs both under
// the gosym engine (its reflect model) and natively (replay / differential validation).

import (
	"reflect"
	"sort"

	"github.com/xelaj/mtproto/internal/encoding/tl"
	"github.com/xelaj/mtproto/internal/verifrt"
)

var (
	tObject  = reflect.TypeOf((*tl.Object)(nil)).Elem()
	tInt128  = reflect.TypeOf(&tl.Int128{})
	tInt256  = reflect.TypeOf(&tl.Int256{})
	tBytes   = reflect.TypeOf([]byte(nil))
	sortedID []uint32
)

func ids() []uint32 {
	if sortedID == nil {
		sortedID = tl.VerifSortedCrcs()
	}
	return sortedID
}

// structIDs: ids of registered struct constructors (not enum members), in id order
func structIDs() []uint32 {
	var out []uint32
	for _, id := range ids() {
		if !tl.VerifIsEnum(id) {
			out = append(out, id)
		}
	}
	return out
}

type tagInfo struct {
	cond  bool // conditional field
	bit   int
	inBit bool // encoded_in_bitflags
	skip  bool
}

func fieldTag(f reflect.StructField) tagInfo {
	t, ok := f.Tag.Lookup("tl")
	if !ok {
		return tagInfo{}
	}
	if t == "-" {
		return tagInfo{skip: true}
	}
	var ti tagInfo
	// "flag:N" or "flag:N,encoded_in_bitflags"
	i := 0
	if len(t) > 5 && t[:5] == "flag:" {
		ti.cond = true
		i = 5
		for i < len(t) && t[i] >= '0' && t[i] <= '9' {
			ti.bit = ti.bit*10 + int(t[i]-'0')
			i++
		}
	}
	if i < len(t) && t[i:] == ",encoded_in_bitflags" {
		ti.inBit = true
	}
	return ti
}

// condFields lists the indices of the conditional fields of struct type st
func condFields(st reflect.Type) []int {
	var out []int
	for i := 0; i < st.NumField(); i++ {
		if fieldTag(st.Field(i)).cond {
			out = append(out, i)
		}
	}
	return out
}

// presence pattern: which conditional fields are non-zero.  pat 0 none, 1 all, 2+j only the j-th, 2+m+j all
// but the j-th (m = number of conditional fields); then, for m >= 3, the 2*bits(m-1) *pairwise* patterns
// 2+2m+2b(+1): field j is present iff bit b of j is set (resp. clear).  Any two distinct fields differ in
// some bit of their index, so together with none/all every pair of conditional fields is seen in all four
// presence combinations.
func present(pat, m, j int) bool {
	switch {
	case pat == 0:
		return false
	case pat == 1:
		return true
	case pat < 2+m:
		return pat-2 == j
	case pat < 2+2*m:
		return pat-2-m != j
	default:
		q := pat - 2 - 2*m
		return ((j>>(q/2))&1 == 1) != (q%2 == 1)
	}
}

func idxBits(m int) int {
	b := 0
	for (1 << b) < m {
		b++
	}
	return b
}

func numPatterns(m int) int {
	if m == 0 {
		return 1
	}
	if m == 1 {
		return 2
	}
	if m == 2 {
		return 2 + 2*m
	}
	return 2 + 2*m + 2*idxBits(m)
}

// pairwisePat maps q = 0,1,.. to the q-th pairwise pattern of a constructor with m conditional fields (a
// pattern number past the last one when there is none), so that a driver can ask for "the pairwise patterns"
// without knowing m.
func pairwisePat(m, q int) int {
	if m < 3 {
		return 1 << 20
	}
	return 2 + 2*m + q
}

type filler struct {
	lenSel   int // string / vector lengths are (lenSel + k) mod 5 resp. mod 3, k = running counter
	counter  int
	variant  int  // which implementing constructor is chosen for interface-typed fields
	noChoice bool // enum-typed leaves take their first member instead of a symbolic choice (content is irrelevant)
}

func (f *filler) nextLen(mod int, nonzero bool) int {
	f.counter++
	n := (f.lenSel + f.counter) % mod
	if nonzero && n == 0 {
		n = mod - 1
	}
	return n
}

var implCache = map[reflect.Type][]uint32{}

// implementers: registered struct constructors assignable to interface type it, fewest fields first
func implementers(it reflect.Type) []uint32 {
	if r, ok := implCache[it]; ok {
		return r
	}
	reg := tl.VerifRegistry()
	var out []uint32
	for _, id := range ids() {
		t := reg[id]
		if t.Implements(it) {
			out = append(out, id)
		}
	}
	sort.SliceStable(out, func(i, j int) bool { return nfields(reg[out[i]]) < nfields(reg[out[j]]) })
	implCache[it] = out
	return out
}

func leafLike(t reflect.Type) bool {
	if t.Kind() != reflect.Ptr || t.Elem().Kind() != reflect.Struct {
		return true
	}
	st := t.Elem()
	for i := 0; i < st.NumField(); i++ {
		ft := st.Field(i)
		if fieldTag(ft).cond {
			continue
		}
		switch ft.Type.Kind() {
		case reflect.Interface:
			return false
		case reflect.Slice:
			if ft.Type != tBytes {
				return false
			}
		case reflect.Ptr:
			if ft.Type != tInt128 && ft.Type != tInt256 {
				return false
			}
		}
	}
	return true
}

func nfields(t reflect.Type) int {
	if t.Kind() == reflect.Ptr && t.Elem().Kind() == reflect.Struct {
		return t.Elem().NumField()
	}
	return 0
}

// fill assigns v (settable) a value: symbolic leaves; nonzero forces a value that is not the zero value.
func (f *filler) fill(v reflect.Value, nonzero bool, depth int) {
	t := v.Type()
	switch t.Kind() {
	case reflect.Bool:
		if nonzero {
			v.SetBool(true)
		} else {
			v.SetBool(verifrt.Bool())
		}
	case reflect.Int32:
		x := verifrt.I32()
		if nonzero {
			verifrt.Assume(x != 0)
		}
		v.SetInt(int64(x))
	case reflect.Int64:
		x := verifrt.I64()
		if nonzero {
			verifrt.Assume(x != 0)
		}
		v.SetInt(x)
	case reflect.Uint32: // enum
		v.SetUint(uint64(f.enumMember(t, nonzero)))
	case reflect.Float64:
		x := verifrt.U64()
		// every bit pattern, infinities and NaN payloads included (values are compared as bit patterns); when
		// the field must be present, both zeros are excluded
		if nonzero {
			verifrt.Assume(x<<1 != 0)
		}
		v.Set(reflect.ValueOf(f64frombits(x)))
	case reflect.String:
		v.SetString(verifrt.String(f.nextLen(5, nonzero)))
	case reflect.Slice:
		if t == tBytes {
			// a conditional byte string / vector that must be present may also be present and EMPTY: a non-nil
			// slice of length 0 is a non-zero Go value, so its group counts as present and an empty string /
			// a vector with count 0 goes on the wire
			n := f.nextLen(5, false)
			b := verifrt.Bytes(n)
			if n == 0 {
				b = nil
				if nonzero {
					b = []byte{}
				}
			}
			v.SetBytes(b)
			return
		}
		n := f.nextLen(4, false) // vectors of 0..3 elements
		if depth < -1 && !nonzero {
			n = 0 // recursion cut-off (recursive schema types)
		}
		if n == 0 && !nonzero {
			return // nil slice
		}
		s := reflect.MakeSlice(t, n, n)
		for i := 0; i < n; i++ {
			f.fill(s.Index(i), false, depth-1)
		}
		v.Set(s)
	case reflect.Ptr:
		switch t {
		case tInt128:
			v.Set(reflect.ValueOf(&tl.Int128{Int: bigFromBytes(verifrt.Bytes(16))}))
		case tInt256:
			v.Set(reflect.ValueOf(&tl.Int256{Int: bigFromBytes(verifrt.Bytes(32))}))
		default:
			p := reflect.New(t.Elem())
			f.fillStruct(p.Elem(), -1, depth-1)
			v.Set(p)
		}
	case reflect.Interface:
		impl := implementers(t)
		if len(impl) == 0 {
			verifrt.Note("no implementer for " + t.String())
			return
		}
		k := 0
		if depth < -1 {
			// recursion cut-off: prefer an implementer without interface / vector fields
			for i, id := range impl {
				if leafLike(tl.VerifRegistry()[id]) {
					k = i
					break
				}
			}
		} else if depth > 0 && len(impl) > 1 {
			k = f.variant % len(impl)
			if k > 2 {
				k = 2
			}
		}
		it := tl.VerifRegistry()[impl[k]]
		if it.Kind() == reflect.Ptr {
			p := reflect.New(it.Elem())
			pat := 0
			if depth > 0 {
				pat = 1
			}
			f.fillStruct(p.Elem(), pat, depth-1)
			v.Set(p)
		} else { // enum member registered by value
			e := reflect.New(it).Elem()
			e.SetUint(uint64(impl[k]))
			v.Set(e)
		}
	default:
		panic("fill: unsupported kind " + t.String())
	}
}

func (f *filler) enumMember(t reflect.Type, nonzero bool) uint32 {
	reg := tl.VerifRegistry()
	var members []uint32
	for _, id := range ids() {
		if tl.VerifIsEnum(id) && reg[id] == t {
			members = append(members, id)
		}
	}
	if len(members) == 0 {
		x := verifrt.U32()
		if nonzero {
			verifrt.Assume(x != 0)
		}
		return x
	}
	if f.noChoice {
		return members[0]
	}
	return members[verifrt.Choice(len(members))]
}

// fillStruct fills struct value sv; pat < 0: conditional fields absent below the top level
func (f *filler) fillStruct(sv reflect.Value, pat int, depth int) {
	st := sv.Type()
	cf := condFields(st)
	j := 0
	for i := 0; i < st.NumField(); i++ {
		ti := fieldTag(st.Field(i))
		if ti.skip {
			continue
		}
		if ti.cond {
			if pat >= 0 && present(pat, len(cf), j) {
				f.fill(sv.Field(i), true, depth)
			}
			j++
			continue
		}
		f.fill(sv.Field(i), false, depth)
	}
}

// same compares two values structurally, accumulating one boolean (no forks on symbolic leaves)
func same(a, b reflect.Value) bool {
	if a.Type() != b.Type() {
		return false
	}
	switch a.Kind() {
	case reflect.Bool:
		return a.Bool() == b.Bool()
	case reflect.Int32, reflect.Int64:
		return a.Int() == b.Int()
	case reflect.Uint32:
		return a.Uint() == b.Uint()
	case reflect.Float64:
		return f64bits(a.Float()) == f64bits(b.Float())
	case reflect.String:
		return verifrt.SameString(a.String(), b.String())
	case reflect.Slice:
		if a.Type() == tBytes {
			return verifrt.SameBytes(a.Bytes(), b.Bytes())
		}
		if a.Len() != b.Len() { // nil and empty vectors are the same wire value
			return false
		}
		r := true
		for i := 0; i < a.Len(); i++ {
			r = verifrt.And(r, same(a.Index(i), b.Index(i)))
		}
		return r
	case reflect.Ptr:
		if a.IsNil() || b.IsNil() {
			return a.IsNil() && b.IsNil()
		}
		switch a.Type() {
		case tInt128:
			return verifrt.SameBytes(bigBytes(a.Interface().(*tl.Int128).Int, 16), bigBytes(b.Interface().(*tl.Int128).Int, 16))
		case tInt256:
			return verifrt.SameBytes(bigBytes(a.Interface().(*tl.Int256).Int, 32), bigBytes(b.Interface().(*tl.Int256).Int, 32))
		}
		return same(a.Elem(), b.Elem())
	case reflect.Interface:
		if a.IsNil() || b.IsNil() {
			return a.IsNil() && b.IsNil()
		}
		return same(a.Elem(), b.Elem())
	case reflect.Struct:
		r := true
		for i := 0; i < a.NumField(); i++ {
			if fieldTag(a.Type().Field(i)).skip {
				continue
			}
			r = verifrt.And(r, same(a.Field(i), b.Field(i)))
		}
		return r
	}
	panic("same: unsupported kind " + a.Type().String())
}

// groupBits: the flags word the statement's rule gives: bit N set iff some field tagged N is non-zero
func groupBits(sv reflect.Value) uint32 {
	st := sv.Type()
	var bits uint32
	for i := 0; i < st.NumField(); i++ {
		ti := fieldTag(st.Field(i))
		if ti.cond && !sv.Field(i).IsZero() {
			bits |= 1 << uint(ti.bit)
		}
	}
	return bits
}

// written: is field i part of the serialisation of sv?
func written(sv reflect.Value, i int, bits uint32) bool {
	ti := fieldTag(sv.Type().Field(i))
	if ti.skip || ti.inBit {
		return false
	}
	if ti.cond {
		return bits&(1<<uint(ti.bit)) != 0
	}
	return true
}

// representable: every written pointer / interface (at any depth) is non-nil
func representable(v reflect.Value) bool {
	switch v.Kind() {
	case reflect.Ptr:
		if v.IsNil() {
			return false
		}
		if v.Type() == tInt128 || v.Type() == tInt256 {
			return true
		}
		return representable(v.Elem())
	case reflect.Interface:
		if v.IsNil() {
			return false
		}
		return representable(v.Elem())
	case reflect.Slice:
		if v.Type() == tBytes {
			return true
		}
		for i := 0; i < v.Len(); i++ {
			if !representable(v.Index(i)) {
				return false
			}
		}
		return true
	case reflect.Struct:
		bits := groupBits(v)
		for i := 0; i < v.NumField(); i++ {
			if written(v, i, bits) && !representable(v.Field(i)) {
				return false
			}
		}
		return true
	}
	return true
}

// normalize rewrites v to what the wire format can carry: a bool stored in a flag bit reads back as "the bit
// is set", i.e. true whenever its group is present; empty and nil slices / byte strings are the same value.
func normalize(v reflect.Value) {
	switch v.Kind() {
	case reflect.Ptr, reflect.Interface:
		if !v.IsNil() && v.Type() != tInt128 && v.Type() != tInt256 {
			normalize(v.Elem())
		}
	case reflect.Slice:
		if v.Type() != tBytes {
			for i := 0; i < v.Len(); i++ {
				normalize(v.Index(i))
			}
		}
	case reflect.Struct:
		if !v.CanSet() {
			return
		}
		bits := groupBits(v)
		st := v.Type()
		for i := 0; i < st.NumField(); i++ {
			ti := fieldTag(st.Field(i))
			if ti.inBit && bits&(1<<uint(ti.bit)) != 0 {
				v.Field(i).SetBool(true)
			}
			if !ti.skip {
				normalize(v.Field(i))
			}
		}
	}
}

// otherTraffic: what else the codec is asked to do around the value under test - a value that is refused half
// way through its serialisation (a nil mandatory object after an int field), and, when ok, a different value that
// is serialised successfully.  Results handed out earlier must not change, and a later result must not contain
// leftovers of an earlier call (buffers shared between calls, e.g. pooled ones, are the way both go wrong).
func otherTraffic(ok bool) {
	verifrt.Catch(func() { _, _ = tl.Marshal(&InvokeWithLayerParams{Layer: verifrt.I32(), Query: nil}) })
	if ok {
		verifrt.Catch(func() {
			_, _ = tl.Marshal(&InvokeWithLayerParams{Layer: verifrt.I32(), Query: &InvokeWithLayerParams{Layer: verifrt.I32(), Query: &HelpGetConfigParams{}}})
		})
	}
}
