//go:build verif

package telegram

import (
	"reflect"

	"github.com/xelaj/mtproto/internal/encoding/tl"
	"github.com/xelaj/mtproto/internal/verifrt"
)

var tFlagIndexGetter = reflect.TypeOf((*tl.FlagIndexGetter)(nil)).Elem()

func kindForSchemaType(t string) (reflect.Kind, bool) {
	switch t {
	case "int":
		return reflect.Int32, true
	case "long":
		return reflect.Int64, true
	case "double":
		return reflect.Float64, true
	case "string":
		return reflect.String, true
	case "Bool", "true":
		return reflect.Bool, true
	}
	return 0, false
}

// structMatches: the Go struct st is a faithful translation of schema line d (order, type, flag bit, position
// of the flags word).  Every comparison is an obligation of its own.
func structMatches(tag string, pt reflect.Type, d *refDef) {
	st := pt.Elem()
	var gf []int
	for i := 0; i < st.NumField(); i++ {
		if !fieldTag(st.Field(i)).skip {
			gf = append(gf, i)
		}
	}
	verifrt.Assert(len(gf) == len(d.Params), tag+"field-count")
	if len(gf) != len(d.Params) {
		return
	}
	hasFlags := false
	for i, p := range d.Params {
		f := st.Field(gf[i])
		ti := fieldTag(f)
		verifrt.Assert(ti.cond == (p.Flag >= 0), tag+"conditional-iff-schema-says-so")
		if p.Flag >= 0 {
			hasFlags = true
			verifrt.Assert(ti.bit == p.Flag, tag+"flag-bit")
			verifrt.Assert(ti.inBit == (p.Type == "true"), tag+"bit-only-iff-true")
		}
		if k, ok := kindForSchemaType(p.Type); ok {
			verifrt.Assert(f.Type.Kind() == k, tag+"field-kind")
			continue
		}
		if _, _, ok := isVector(p.Type); ok {
			verifrt.Assert(f.Type.Kind() == reflect.Slice && f.Type != tBytes, tag+"field-kind")
			continue
		}
		switch p.Type {
		case "bytes":
			verifrt.Assert(f.Type == tBytes, tag+"field-kind")
		case "int128":
			verifrt.Assert(f.Type == tInt128, tag+"field-kind")
		case "int256":
			verifrt.Assert(f.Type == tInt256, tag+"field-kind")
		default: // object: interface, pointer to struct, or enum (uint32)
			k := f.Type.Kind()
			verifrt.Assert(k == reflect.Interface || k == reflect.Ptr || k == reflect.Uint32, tag+"field-kind")
		}
	}
	_, isGetter := reflect.New(st).Interface().(tl.FlagIndexGetter)
	verifrt.Assert(isGetter == (d.FlagsPos >= 0), tag+"flags-word-iff-schema-has-one")
	if isGetter && d.FlagsPos >= 0 {
		verifrt.Assert(reflect.New(st).Interface().(tl.FlagIndexGetter).FlagIndex() == d.FlagsPos, tag+"flags-word-position")
	}
	_ = hasFlags
}

// H_C13_def: the k-th definition of the shipped schemas.
func H_C13_def(k int) {
	if k >= len(refDefs) {
		verifrt.Assert(true, "index-past-schema")
		return
	}
	d := refDefs[k]
	verifrt.Note(d.File + ":" + d.Name)
	if d.Name != "msg_container" { // its id is assigned, not derived (vector<%Message>): documented exception
		verifrt.Assert(d.LineCRC == d.ID, "schema-id-is-crc32-of-canonical-line")
	}
	rt, ok := tl.VerifRegistry()[d.ID]
	if !ok {
		if d.File == "mtproto.tl" {
			verifrt.Note("not-implemented:" + d.Name) // service definitions the client never puts on the wire
			verifrt.Assert(true, "service-definition-not-wire-used")
			return
		}
		generic := false
		for _, p := range d.Params {
			if p.Type == "!X" {
				generic = true
			}
		}
		if generic {
			// generic request wrappers (invokeWithLayer, initConnection, ...) are hand-written or absent and are
			// never decoded, so they need not be registered; H_C13_wrappers checks the implemented ones
			verifrt.Note("generic-wrapper:" + d.Name)
			verifrt.Assert(true, "generic-wrapper-not-registered")
			return
		}
		verifrt.Assert(false, "schema-definition-registered")
		return
	}
	verifrt.Assert(true, "schema-definition-registered")
	if tl.VerifIsEnum(d.ID) {
		verifrt.Assert(len(d.Params) == 0, "enum-member-has-no-parameters")
		ev := reflect.New(rt).Elem()
		ev.SetUint(uint64(d.ID))
		verifrt.Assert(ev.Interface().(tl.Object).CRC() == d.ID, "crc-method-equals-schema-id")
		return
	}
	verifrt.Assert(rt.Kind() == reflect.Ptr, "registered-as-pointer")
	if rt.Kind() != reflect.Ptr {
		return
	}
	obj := reflect.New(rt.Elem()).Interface().(tl.Object)
	verifrt.Assert(obj.CRC() == d.ID, "crc-method-equals-schema-id")
	if rt.Elem().Kind() != reflect.Struct {
		verifrt.Note("hand-written:" + d.Name)
		return
	}
	if _, custom := obj.(tl.Unmarshaler); custom {
		verifrt.Note("hand-written:" + d.Name)
		return
	}
	structMatches("", rt, d)
	unionMembership(rt, d)
}

// goTypeName: the generator's name for a boxed schema type ("upload.File" -> "UploadFile")
func goTypeName(t string) string {
	out := ""
	up := true
	for i := 0; i < len(t); i++ {
		c := t[i]
		if c == '.' || c == '_' {
			up = true
			continue
		}
		if up && c >= 'a' && c <= 'z' {
			c -= 32
		}
		up = false
		out += string(rune(c))
	}
	return out
}

var unionNames []string // boxed result types of the API schema that have several constructors

func unions() []string {
	if unionNames == nil {
		cnt := map[string]int{}
		for _, d := range refDefs {
			if !d.Func && d.File != "mtproto.tl" {
				cnt[d.Result]++
			}
		}
		for _, d := range refDefs { // schema order, deterministic
			if cnt[d.Result] > 1 {
				unionNames = append(unionNames, d.Result)
				cnt[d.Result] = 0
			}
		}
	}
	return unionNames
}

// unionMembership: a constructor whose schema line says "= R" is a member of the Go interface generated for R
// (marker method ImplementsR) and of no other union - this is what makes a client method able to return it "as
// the result kind the schema declares" (the methods type-assert the decoded answer to that interface).
func unionMembership(rt reflect.Type, d *refDef) {
	if d.Func || d.File == "mtproto.tl" {
		return
	}
	// the generator's marker methods of this type, compared case-insensitively (its naming turns Url/Json/Id
	// into URL/JSON/ID)
	var markers []string
	for i := 0; i < rt.NumMethod(); i++ {
		n := rt.Method(i).Name
		if len(n) > 10 && n[:10] == "Implements" {
			markers = append(markers, lowerASCII(n[10:]))
		}
	}
	want := lowerASCII(goTypeName(d.Result))
	isUnion := false
	for _, u := range unions() {
		if u == d.Result {
			isUnion = true
		}
	}
	if isUnion {
		verifrt.Assert(len(markers) >= 1, "constructor-is-member-of-its-result-type")
	}
	verifrt.Assert(len(markers) <= 1, "constructor-is-member-of-one-type-only")
	for _, m := range markers {
		verifrt.Assert(m == want, "constructor-is-member-of-the-type-its-schema-line-names")
	}
}

func lowerASCII(s string) string {
	b := []byte(s)
	for i, c := range b {
		if c >= 'A' && c <= 'Z' {
			b[i] = c + 32
		}
	}
	return string(b)
}

// H_C13_registry: nothing is registered that the schemas do not define; ids are unique per type.
func H_C13_registry() {
	reg := tl.VerifRegistry()
	seen := map[reflect.Type]uint32{}
	n := 0
	for _, id := range ids() {
		d := schemaDef(id)
		if d == nil {
			verifrt.Note("registered-but-not-in-schema:" + reg[id].String())
			verifrt.Assert(false, "registered-id-defined-by-schema:"+reg[id].String())
		} else {
			verifrt.Assert(true, "registered-id-defined-by-schema")
		}
		if !tl.VerifIsEnum(id) {
			prev, dup := seen[reg[id]]
			verifrt.Assert(!dup, "one-id-per-type")
			_ = prev
			seen[reg[id]] = id
		}
		n++
	}
	verifrt.Assert(n > 1000, "registry-populated")
}

// H_C13_wrappers: the hand-written generic request wrappers carry the ids and layouts of their schema lines.
func H_C13_wrappers() {
	byName := map[string]*refDef{}
	for _, d := range refDefs {
		byName[d.Name] = d
	}
	check := func(name string, o tl.Object) {
		d := byName[name]
		verifrt.Assert(d != nil, "wrapper-has-schema-line")
		if d == nil {
			return
		}
		verifrt.Assert(o.CRC() == d.ID, "wrapper-id-"+name)
		structMatches("wrapper-"+name+"-", reflect.TypeOf(o), d)
	}
	check("initConnection", &InitConnectionParams{})
	check("invokeWithLayer", &InvokeWithLayerParams{})
	check("invokeWithTakeout", &InvokeWithTakeoutParams{})
}
