//go:build verif

package telegram

import (
	"github.com/xelaj/mtproto/internal/encoding/tl"
	"github.com/xelaj/mtproto/internal/mtproto/messages"
	"github.com/xelaj/mtproto/internal/mtproto/objects"
	"github.com/xelaj/mtproto/internal/verifrt"
)

// containerOf builds a msg_container of k messages with symbolic ids, seq_nos and bodies of 1..maxw words (a body is an object: at least its constructor id), and
// the bytes the MTProto schema defines for it:
//   msg_container#73f1f8dc messages:vector<%Message>;  message msg_id:long seqno:int bytes:int body:Object
// (bare vector: count without vector id; bytes = length of the body).
func containerOf(k, maxw int) (*objects.MessageContainer, []byte) {
	c := make(objects.MessageContainer, 0, k)
	ref := append(cle32(0x73f1f8dc), cle32(uint32(k))...)
	for i := 0; i < k; i++ {
		m := &messages.Encrypted{MsgID: verifrt.I64(), SeqNo: verifrt.I32(), Msg: verifrt.Bytes(4 * (1 + verifrt.Len(maxw-1)))}
		c = append(c, m)
		ref = append(ref, cle64(uint64(m.MsgID))...)
		ref = append(ref, cle32(uint32(m.SeqNo))...)
		ref = append(ref, cle32(uint32(len(m.Msg)))...)
		ref = append(ref, m.Msg...)
	}
	return &c, ref
}

func cle32(v uint32) []byte { return []byte{byte(v), byte(v >> 8), byte(v >> 16), byte(v >> 24)} }
func cle64(v uint64) []byte { return append(cle32(uint32(v)), cle32(uint32(v>>32))...) }

func sameContainer(a, b objects.MessageContainer) bool {
	if len(a) != len(b) {
		return false
	}
	ok := true
	for i := range a {
		ok = verifrt.And(ok, verifrt.And(a[i].MsgID == b[i].MsgID, a[i].SeqNo == b[i].SeqNo))
		ok = verifrt.And(ok, verifrt.SameBytes(a[i].Msg, b[i].Msg))
	}
	return ok
}

// H_C01_container: msg_container (the one registered constructor that is not a struct) survives
// Marshal -> Decode / DecodeUnknownObject, and marshals deterministically.
func H_C01_container(k, maxw int) {
	c, _ := containerOf(k, maxw)
	var b, b2 []byte
	var err error
	pn := verifrt.Catch(func() { b, err = tl.Marshal(c) })
	verifrt.Assert(!pn && err == nil, "container-marshal-ok")
	if pn || err != nil {
		return
	}
	pn = verifrt.Catch(func() { b2, err = tl.Marshal(c) })
	verifrt.Assert(!pn && err == nil && verifrt.SameBytes(b, b2), "container-marshal-deterministic")
	var back objects.MessageContainer
	pn = verifrt.Catch(func() { err = tl.Decode(b, &back) })
	verifrt.Assert(!pn, "container-decode-no-panic")
	if !pn {
		verifrt.Assert(err == nil, "container-decode-named-ok")
		if err == nil {
			verifrt.Assert(sameContainer(*c, back), "container-roundtrip-named")
		}
	}
	var o tl.Object
	pn = verifrt.Catch(func() { o, err = tl.DecodeUnknownObject(b) })
	verifrt.Assert(!pn, "container-decode-unknown-no-panic")
	if !pn {
		verifrt.Assert(err == nil, "container-decode-unknown-ok")
		if err == nil {
			got, ok := o.(*objects.MessageContainer)
			verifrt.Assert(ok, "container-decode-unknown-type")
			if ok {
				verifrt.Assert(sameContainer(*c, *got), "container-roundtrip-unknown")
			}
		}
	}
}

// H_C02_container: the bytes written for a msg_container are the schema's, and schema-built bytes decode to the
// corresponding value.
func H_C02_container(k, maxw int) {
	c, ref := containerOf(k, maxw)
	var b []byte
	var err error
	pn := verifrt.Catch(func() { b, err = tl.Marshal(c) })
	verifrt.Assert(!pn && err == nil, "container-marshal-ok")
	if !pn && err == nil {
		verifrt.Observe("wire", b)
		verifrt.Assert(verifrt.SameBytes(b, ref), "container-wire-form")
	}
	var o tl.Object
	pn = verifrt.Catch(func() { o, err = tl.DecodeUnknownObject(ref) })
	verifrt.Assert(!pn && err == nil, "container-schema-bytes-decode")
	if !pn && err == nil {
		got, ok := o.(*objects.MessageContainer)
		verifrt.Assert(ok && sameContainer(*c, *got), "container-schema-bytes-decode-to-the-value")
	}
}
