//go:build verif

package telegram

import (
	"bytes"
	"compress/gzip"
	"reflect"

	"github.com/xelaj/mtproto/internal/encoding/tl"
	"github.com/xelaj/mtproto/internal/verifrt"
)

// candidate ids for nested registry look-ups when decoding constructor id `top`: the first implementers of
// every interface-typed field (one level of nesting), a constructor of a foreign interface, an enum member,
// and the top id itself.  Everything else is outside the stated bound (verifrt.MapCandidates).
func candidatesFor(top uint32) []uint32 {
	reg := tl.VerifRegistry()
	seen := map[uint32]bool{top: true}
	out := []uint32{top}
	add := func(id uint32) {
		if !seen[id] {
			seen[id] = true
			out = append(out, id)
		}
	}
	var walk func(t reflect.Type, depth int)
	walk = func(t reflect.Type, depth int) {
		switch t.Kind() {
		case reflect.Ptr:
			if t != tInt128 && t != tInt256 {
				walk(t.Elem(), depth)
			}
		case reflect.Slice:
			if t != tBytes {
				walk(t.Elem(), depth)
			}
		case reflect.Interface:
			impl := implementers(t)
			for i := 0; i < len(impl) && i < 2; i++ {
				add(impl[i])
				if depth > 0 {
					walk(reg[impl[i]], depth-1)
				}
			}
		case reflect.Struct:
			for i := 0; i < t.NumField(); i++ {
				walk(t.Field(i).Type, depth)
			}
		}
	}
	if t, ok := reg[top]; ok {
		walk(t, 1)
	}
	// a constructor that implements none of the above interfaces, and an enum member
	for _, id := range ids() {
		if tl.VerifIsEnum(id) {
			add(id)
			break
		}
	}
	for _, id := range []uint32{0x347773c5 /* pong */, 0x2144ca19 /* rpc_error */, 0x62d6b459 /* msgs_ack */} {
		add(id)
	}
	return out
}

// cutLen: W words, or fewer, optionally cut one byte short (every word boundary and an unaligned cut)
func cutLen(W int) int {
	n := 4 * verifrt.Len(W)
	if n > 0 && verifrt.Bool() {
		n--
	}
	return n
}

func le32s(v uint32) []byte { return []byte{byte(v), byte(v >> 8), byte(v >> 16), byte(v >> 24)} }

// H_C15_unknown: constructor id (k-th registered id, enums included) followed by up to W arbitrary 32-bit
// words, cut at every byte length: DecodeUnknownObject ends in a value or an error; no panic; no allocation
// out of proportion to the input.
func H_C15_unknown(k, W, hinted int) {
	all := ids()
	if k >= len(all) {
		verifrt.Assert(true, "index-past-registry")
		return
	}
	top := all[k]
	verifrt.Note(tl.VerifRegistry()[top].String())
	n := cutLen(W)
	b := append(le32s(top), verifrt.Bytes(n)...)
	verifrt.MapCandidates(candidatesFor(top))
	verifrt.AllocBudget(16*len(b) + 4096)
	verifrt.AllocSampling(3, 1)
	var err error
	var o tl.Object
	pn := verifrt.Catch(func() {
		if hinted != 0 {
			o, err = tl.DecodeUnknownObject(b, reflect.TypeOf([]int64{}), reflect.TypeOf([]*User{}))
		} else {
			o, err = tl.DecodeUnknownObject(b)
		}
	})
	if pn {
		verifrt.Note("panic: " + verifrt.PanicMsg())
	}
	verifrt.AllocCheck()
	verifrt.Assert(!pn, "decode-unknown-arbitrary-no-panic")
	if !pn && err == nil {
		verifrt.Cover("accepted")
		verifrt.Assert(o != nil, "accepted-has-value")
	}
}

// H_C15_named: the same bytes decoded into a named value of the constructor's own type.
func H_C15_named(k, W int) {
	sid := structIDs()
	if k >= len(sid) {
		verifrt.Assert(true, "index-past-registry")
		return
	}
	pt := tl.VerifRegistry()[sid[k]]
	verifrt.Note(pt.String())
	if pt.Kind() != reflect.Ptr {
		verifrt.Assert(true, "not-a-pointer-type")
		return
	}
	n := cutLen(W)
	b := append(le32s(sid[k]), verifrt.Bytes(n)...)
	verifrt.MapCandidates(candidatesFor(sid[k]))
	verifrt.AllocBudget(16*len(b) + 4096)
	verifrt.AllocSampling(3, 1)
	w := reflect.New(pt.Elem())
	var err error
	pn := verifrt.Catch(func() { err = tl.Decode(b, w.Interface()) })
	if pn {
		verifrt.Note("panic: " + verifrt.PanicMsg())
	}
	verifrt.AllocCheck()
	verifrt.Assert(!pn, "decode-named-arbitrary-no-panic")
	_ = err
}

// H_C15_anyid: a fully arbitrary first word (any registered or unregistered id within the candidate set) and
// W more words.
func H_C15_anyid(W int) {
	n := verifrt.Len(4 * W)
	b := verifrt.Bytes(4 + n)
	verifrt.MapCandidates(candidatesFor(0x73f1f8dc))
	verifrt.AllocBudget(16*len(b) + 4096)
	pn := verifrt.Catch(func() { _, _ = tl.DecodeUnknownObject(b) })
	if pn {
		verifrt.Note("panic: " + verifrt.PanicMsg())
	}
	verifrt.Assert(!pn, "decode-unknown-anyid-no-panic")
}

// H_C15_container: msg_container id followed by arbitrary words (negative / huge counts and sizes included).
func H_C15_container(W int) {
	n := cutLen(W)
	b := append(le32s(0x73f1f8dc), verifrt.Bytes(n)...)
	verifrt.AllocBudget(16*len(b) + 4096)
	verifrt.AllocSampling(3, 2)
	pn := verifrt.Catch(func() { _, _ = tl.DecodeUnknownObject(b) })
	if pn {
		verifrt.Note("panic: " + verifrt.PanicMsg())
	}
	verifrt.AllocCheck()
	verifrt.Assert(!pn, "container-arbitrary-no-panic")
}

func gzipOf(inner []byte) []byte {
	var buf bytes.Buffer
	w := gzip.NewWriter(&buf)
	_, _ = w.Write(inner)
	_ = w.Close()
	return buf.Bytes()
}

// H_C15_gzip: gzip_packed carrying (a) a properly packed arbitrary inner body, (b) arbitrary bytes that are not
// a gzip stream.  Value or error, never a panic.
func H_C15_gzip(W, packed int) {
	var payload []byte
	if packed == 2 {
		// a gzip stream with a valid header whose body or trailer is damaged (cut short, wrong checksum)
		inner := verifrt.Bytes(4 * verifrt.Len(W))
		if verifrt.Symbolic() {
			payload = append([]byte("GZ0:"), inner...)
		} else {
			payload = gzipOf(inner)
			payload[len(payload)-5] ^= 0xff
		}
	} else if packed != 0 {
		inner := verifrt.Bytes(4 * verifrt.Len(W))
		payload = gzipOf(inner)
	} else {
		payload = verifrt.Bytes(verifrt.Len(4 * W))
	}
	b := append(le32s(0x3072cfa1), refTLString(payload)...)
	verifrt.MapCandidates(candidatesFor(0x3072cfa1))
	verifrt.AllocSampling(3, 2)
	var err error
	ended := true
	pn := verifrt.Catch(func() {
		ended = verifrt.Terminates(3000000, func() { _, err = tl.DecodeUnknownObject(b) })
	})
	if pn {
		verifrt.Note("panic: " + verifrt.PanicMsg())
	}
	verifrt.Assert(!pn, "gzip-arbitrary-no-panic")
	verifrt.Assert(ended, "gzip-decoding-terminates")
	if !pn && packed == 0 {
		_ = err
	}
}
