//go:build verif

package telegram

import (
	"reflect"

	"github.com/xelaj/mtproto/internal/encoding/tl"
	"github.com/xelaj/mtproto/internal/verifrt"
)

// H_C01_rt: the idx-th registered struct constructor, presence pattern pat, nesting depth, implementer variant.
// Marshal -> Decode (named type) and -> DecodeUnknownObject (id-selected type) return the original value;
// marshalling twice gives identical bytes.
func H_C01_rt(idx, pat, depth, variant int) {
	sid := structIDs()
	if idx >= len(sid) {
		verifrt.Assert(true, "index-past-registry")
		return
	}
	pt := tl.VerifRegistry()[sid[idx]]
	verifrt.Note(pt.String())
	if pt.Kind() != reflect.Ptr || pt.Elem().Kind() != reflect.Struct {
		verifrt.Assert(true, "not-a-struct-constructor") // msg_container: dedicated harness
		return
	}
	m := len(condFields(pt.Elem()))
	if pat >= 1000 { // 1000+q: the q-th pairwise pattern, whatever m is
		pat = pairwisePat(m, pat-1000)
	}
	if pat >= numPatterns(m) {
		verifrt.Assert(true, "pattern-past-last")
		return
	}
	f := &filler{lenSel: verifrt.Len(4), variant: variant}
	v := reflect.New(pt.Elem())
	f.fillStruct(v.Elem(), pat, depth)
	verifrt.Note(pt.String())

	var b []byte
	var err error
	pn := verifrt.Catch(func() { b, err = tl.Marshal(v.Interface()) })
	verifrt.Assert(!pn, "marshal-no-panic")
	if pn {
		return
	}
	if !representable(v.Elem()) {
		verifrt.Cover("unrepresentable")
		verifrt.Assert(err != nil, "nil-member-of-present-group-is-refused")
		return
	}
	verifrt.Assert(err == nil, "marshal-ok")
	if err != nil {
		return
	}
	verifrt.Observe("wire", b)
	normalize(v.Elem())

	var b2 []byte
	pn = verifrt.Catch(func() { b2, err = tl.Marshal(v.Interface()) })
	verifrt.Assert(!pn && err == nil, "marshal-twice-ok")
	if !pn && err == nil {
		verifrt.Assert(verifrt.SameBytes(b, b2), "marshal-deterministic")
	}

	otherTraffic(true) // other values are serialised while the first result is still in use
	w := reflect.New(pt.Elem())
	pn = verifrt.Catch(func() { err = tl.Decode(b, w.Interface()) })
	verifrt.Assert(!pn, "decode-named-no-panic")
	if !pn {
		verifrt.Assert(err == nil, "decode-named-ok")
		if err == nil {
			verifrt.Assert(same(v.Elem(), w.Elem()), "decode-named-roundtrip")
		}
	}

	var o tl.Object
	pn = verifrt.Catch(func() { o, err = tl.DecodeUnknownObject(b) })
	verifrt.Assert(!pn, "decode-unknown-no-panic")
	if !pn {
		verifrt.Assert(err == nil, "decode-unknown-ok")
		if err == nil {
			ov := reflect.ValueOf(o)
			verifrt.Assert(ov.Type() == pt, "decode-unknown-type")
			if ov.Type() == pt {
				verifrt.Assert(same(v.Elem(), ov.Elem()), "decode-unknown-roundtrip")
			}
		}
	}
}

// H_C01_count: reports how many struct constructors are registered (used by the driver to size the sweep)
func H_C01_count(n int) {
	verifrt.Assert(len(structIDs()) == n, "registered-struct-constructors")
}

// H_info: registry sizes, reported through Note (read by the driver to size the sweeps)
func H_info() {
	n := 0
	for _, id := range ids() {
		if tl.VerifIsEnum(id) {
			n++
		}
	}
	verifrt.Note("structs=" + itoa(len(structIDs())) + " enums=" + itoa(n))
	verifrt.Assert(len(ids()) > 0, "registry-non-empty")
}

func itoa(n int) string {
	if n == 0 {
		return "0"
	}
	s := ""
	for n > 0 {
		s = string(rune('0'+n%10)) + s
		n /= 10
	}
	return s
}

// pick maps (class, k) to an index into structIDs(): class 0 all, 1 constructors with a flag bit shared by
// several fields, 2 MTProto service objects (package objects), 3 hand-written telegram wrappers (*Params
// types that carry a tl.Object query)
var classCache = map[int][]int{}

func pick(class, k int) int {
	if class == 0 {
		return k
	}
	lst, ok := classCache[class]
	if !ok && class == 4 {
		lst = featureCover()
		classCache[class] = lst
		ok = true
	}
	if !ok {
		reg := tl.VerifRegistry()
		for i, id := range structIDs() {
			pt := reg[id]
			if pt.Kind() != reflect.Ptr || pt.Elem().Kind() != reflect.Struct {
				continue
			}
			st := pt.Elem()
			switch class {
			case 1:
				seen := map[int]int{}
				for _, fi := range condFields(st) {
					seen[fieldTag(st.Field(fi)).bit]++
				}
				for _, n := range seen {
					if n > 1 {
						lst = append(lst, i)
						break
					}
				}
			case 2:
				if len(st.PkgPath()) > 8 && st.PkgPath()[len(st.PkgPath())-8:] == "/objects" {
					lst = append(lst, i)
				}
			case 3:
				for fi := 0; fi < st.NumField(); fi++ {
					if st.Field(fi).Type == tObject && st.PkgPath()[len(st.PkgPath())-9:] == "/telegram" {
						lst = append(lst, i)
						break
					}
				}
			}
		}
		classCache[class] = lst
	}
	if k >= len(lst) {
		return 1 << 30
	}
	return lst[k]
}

// featureCover (class 4): a greedy cover of the distinct field shapes that occur in the registry - every
// combination of (kind, element kind, conditional?, stored in the flag bit?, shares its bit?) is represented by
// the first two constructors that exhibit it, so that rarely used encodings (a conditional full Bool, a
// conditional double, vectors of bare ints, ...) are in every quick run.
func featureCover() []int {
	reg := tl.VerifRegistry()
	seen := map[string]int{}
	var lst []int
	for i, id := range structIDs() {
		pt := reg[id]
		if pt.Kind() != reflect.Ptr || pt.Elem().Kind() != reflect.Struct {
			continue
		}
		st := pt.Elem()
		bits := map[int]int{}
		for _, fi := range condFields(st) {
			bits[fieldTag(st.Field(fi)).bit]++
		}
		take := false
		for fi := 0; fi < st.NumField(); fi++ {
			f := st.Field(fi)
			ti := fieldTag(f)
			feat := f.Type.Kind().String()
			if f.Type.Kind() == reflect.Slice || f.Type.Kind() == reflect.Ptr {
				feat += "/" + f.Type.Elem().Kind().String()
			}
			if ti.cond {
				feat += "/cond"
				if ti.inBit {
					feat += "/inbit"
				}
				if bits[ti.bit] > 1 {
					feat += "/shared"
				}
			}
			if seen[feat] < 2 {
				seen[feat]++
				take = true
			}
		}
		if take {
			lst = append(lst, i)
		}
	}
	return lst
}

func H_C01_class(class, k, pat, depth, variant int) { H_C01_rt(pick(class, k), pat, depth, variant) }

// H_C01_enum: every enum member as a value of its own: DecodeUnknownObject(Marshal(member)) == member
func H_C01_enum(k int) {
	var members []uint32
	for _, id := range ids() {
		if tl.VerifIsEnum(id) {
			members = append(members, id)
		}
	}
	if k >= len(members) {
		verifrt.Assert(true, "index-past-registry")
		return
	}
	et := tl.VerifRegistry()[members[k]]
	verifrt.Note(et.String())
	ev := reflect.New(et).Elem()
	ev.SetUint(uint64(members[k]))
	var b []byte
	var err error
	pn := verifrt.Catch(func() { b, err = tl.Marshal(ev.Interface()) })
	verifrt.Assert(!pn, "enum-marshal-no-panic")
	if pn {
		return
	}
	verifrt.Assert(err == nil, "enum-marshal-ok")
	if err != nil {
		return
	}
	verifrt.Assert(len(b) == 4, "enum-is-one-word")
	var o tl.Object
	pn = verifrt.Catch(func() { o, err = tl.DecodeUnknownObject(b) })
	verifrt.Assert(!pn, "enum-decode-unknown-no-panic")
	if pn {
		return
	}
	verifrt.Assert(err == nil, "enum-decode-unknown-ok")
	if err == nil {
		ov := reflect.ValueOf(o)
		verifrt.Assert(ov.Type() == et, "enum-decode-unknown-type")
		if ov.Type() == et {
			verifrt.Assert(ov.Uint() == uint64(members[k]), "enum-decode-unknown-value")
		}
	}
	w := reflect.New(et)
	pn = verifrt.Catch(func() { err = tl.Decode(b, w.Interface()) })
	verifrt.Assert(!pn, "enum-decode-named-no-panic")
	if !pn {
		verifrt.Assert(err == nil, "enum-decode-named-ok")
		if err == nil {
			verifrt.Assert(w.Elem().Uint() == uint64(members[k]), "enum-decode-named-value")
		}
	}
}
