//go:build verif

package telegram

import (
	"reflect"

	"github.com/xelaj/mtproto/internal/encoding/tl"
	"github.com/xelaj/mtproto/internal/verifrt"
)

var defByID map[uint32]*refDef

func schemaDef(id uint32) *refDef {
	if defByID == nil {
		defByID = map[uint32]*refDef{}
		for _, d := range refDefs {
			defByID[d.ID] = d
		}
	}
	return defByID[id]
}

var idOfType map[reflect.Type]uint32

func regID(t reflect.Type) (uint32, bool) {
	if idOfType == nil {
		idOfType = map[reflect.Type]uint32{}
		for id, rt := range tl.VerifRegistry() {
			if !tl.VerifIsEnum(id) {
				idOfType[rt] = id
			}
		}
	}
	id, ok := idOfType[t]
	return id, ok
}

func rle32(v uint32) []byte { return []byte{byte(v), byte(v >> 8), byte(v >> 16), byte(v >> 24)} }
func rle64(v uint64) []byte { return append(rle32(uint32(v)), rle32(uint32(v>>32))...) }

// TL byte string, from the TL specification
func refTLString(msg []byte) []byte {
	var out []byte
	n := len(msg)
	if n < 254 {
		out = append(out, byte(n))
	} else {
		out = append(out, 0xfe, byte(n), byte(n>>8), byte(n>>16))
	}
	out = append(out, msg...)
	for len(out)%4 != 0 {
		out = append(out, 0)
	}
	return out
}

type refEnc struct {
	out []byte
	bad string // first structural mismatch between the Go type and the schema line
}

func (r *refEnc) mismatch(s string) {
	if r.bad == "" {
		r.bad = s
	}
}

func isVector(t string) (string, bool, bool) { // elem, boxed, ok
	if len(t) > 8 && t[:7] == "Vector<" && t[len(t)-1] == '>' {
		return t[7 : len(t)-1], true, true
	}
	if len(t) > 8 && t[:7] == "vector<" && t[len(t)-1] == '>' {
		return t[7 : len(t)-1], false, true
	}
	return "", false, false
}

// value encodes Go value v as schema type t
func (r *refEnc) value(v reflect.Value, t string) {
	if elem, boxed, ok := isVector(t); ok {
		if v.Kind() != reflect.Slice || v.Type() == tBytes {
			r.mismatch("vector field is not a slice: " + t)
			return
		}
		if boxed {
			r.out = append(r.out, rle32(0x1cb5c415)...)
		}
		r.out = append(r.out, rle32(uint32(v.Len()))...)
		for i := 0; i < v.Len(); i++ {
			if boxed {
				r.value(v.Index(i), elem)
			} else {
				r.bare(v.Index(i), elem)
			}
		}
		return
	}
	switch t {
	case "int":
		if v.Kind() != reflect.Int32 {
			r.mismatch("int field has kind " + v.Kind().String())
			return
		}
		r.out = append(r.out, rle32(uint32(v.Int()))...)
	case "long":
		if v.Kind() != reflect.Int64 {
			r.mismatch("long field has kind " + v.Kind().String())
			return
		}
		r.out = append(r.out, rle64(uint64(v.Int()))...)
	case "double":
		if v.Kind() != reflect.Float64 {
			r.mismatch("double field has kind " + v.Kind().String())
			return
		}
		r.out = append(r.out, rle64(f64bits(v.Float()))...)
	case "string":
		if v.Kind() != reflect.String {
			r.mismatch("string field has kind " + v.Kind().String())
			return
		}
		r.out = append(r.out, refTLString([]byte(v.String()))...)
	case "bytes":
		if v.Type() != tBytes {
			r.mismatch("bytes field has type " + v.Type().String())
			return
		}
		r.out = append(r.out, refTLString(v.Bytes())...)
	case "Bool":
		if v.Kind() != reflect.Bool {
			r.mismatch("Bool field has kind " + v.Kind().String())
			return
		}
		if v.Bool() {
			r.out = append(r.out, rle32(0x997275b5)...)
		} else {
			r.out = append(r.out, rle32(0xbc799737)...)
		}
	case "int128":
		if v.Type() != tInt128 {
			r.mismatch("int128 field has type " + v.Type().String())
			return
		}
		r.out = append(r.out, bigBytes(v.Interface().(*tl.Int128).Int, 16)...)
	case "int256":
		if v.Type() != tInt256 {
			r.mismatch("int256 field has type " + v.Type().String())
			return
		}
		r.out = append(r.out, bigBytes(v.Interface().(*tl.Int256).Int, 32)...)
	default: // boxed object: !X, Object, or a schema type
		r.object(v)
	}
}

// object: boxed value: constructor id then the fields of that constructor's schema line
func (r *refEnc) object(v reflect.Value) {
	for v.Kind() == reflect.Interface {
		if v.IsNil() {
			r.mismatch("nil object")
			return
		}
		v = v.Elem()
	}
	if v.Kind() == reflect.Uint32 { // enum member: bare constructor id
		r.out = append(r.out, rle32(uint32(v.Uint()))...)
		return
	}
	if v.Kind() != reflect.Ptr || v.IsNil() || v.Elem().Kind() != reflect.Struct {
		r.mismatch("object field holds " + v.Type().String())
		return
	}
	id, ok := regID(v.Type())
	if !ok {
		r.mismatch("unregistered type " + v.Type().String())
		return
	}
	d := schemaDef(id)
	if d == nil {
		r.mismatch("no schema line for " + v.Type().String())
		return
	}
	r.out = append(r.out, rle32(d.ID)...)
	r.fields(v.Elem(), d)
}

// bare: value of a bare type (%Message, future_salt): fields without constructor id
func (r *refEnc) bare(v reflect.Value, t string) {
	for v.Kind() == reflect.Interface || v.Kind() == reflect.Ptr {
		if v.IsNil() {
			r.mismatch("nil bare value")
			return
		}
		v = v.Elem()
	}
	if v.Kind() != reflect.Struct {
		r.mismatch("bare " + t + " holds " + v.Type().String())
		return
	}
	id, ok := regID(reflect.PtrTo(v.Type()))
	if !ok || schemaDef(id) == nil {
		r.mismatch("no schema line for bare " + t)
		return
	}
	r.fields(v, schemaDef(id))
}

// fields: the parameters of d in declaration order, flags word at the schema position of flags:#
func (r *refEnc) fields(sv reflect.Value, d *refDef) {
	st := sv.Type()
	// Go fields that take part (skip `tl:"-"`)
	var gf []int
	for i := 0; i < st.NumField(); i++ {
		if !fieldTag(st.Field(i)).skip {
			gf = append(gf, i)
		}
	}
	if len(gf) != len(d.Params) {
		r.mismatch("field count differs from schema for " + d.Name)
		return
	}
	var flags uint32
	for i, p := range d.Params {
		if p.Flag >= 0 && !sv.Field(gf[i]).IsZero() {
			flags |= 1 << uint(p.Flag)
		}
	}
	for i := 0; i <= len(d.Params); i++ {
		if d.FlagsPos == i {
			r.out = append(r.out, rle32(flags)...)
		}
		if i == len(d.Params) {
			break
		}
		p := d.Params[i]
		f := sv.Field(gf[i])
		if p.Flag >= 0 {
			if p.Type == "true" {
				if f.Kind() != reflect.Bool {
					r.mismatch("flag-only parameter is not a bool: " + p.Name)
				}
				continue
			}
			if flags&(1<<uint(p.Flag)) == 0 {
				continue
			}
		}
		r.value(f, p.Type)
	}
}

func refMarshal(v reflect.Value) ([]byte, string) {
	r := &refEnc{}
	r.object(v)
	return r.out, r.bad
}

// H_C02_wire: Marshal(v) equals the serialisation the schema line defines, byte for byte, and bytes built
// from the schema decode to the value.
func H_C02_wire(idx, pat, depth, variant int) {
	sid := structIDs()
	if idx >= len(sid) {
		verifrt.Assert(true, "index-past-registry")
		return
	}
	pt := tl.VerifRegistry()[sid[idx]]
	verifrt.Note(pt.String())
	if pt.Kind() != reflect.Ptr || pt.Elem().Kind() != reflect.Struct {
		verifrt.Assert(true, "not-a-struct-constructor")
		return
	}
	if schemaDef(sid[idx]) == nil {
		verifrt.Assert(true, "no-schema-line") // reported by H_C13_registry
		return
	}
	if _, custom := reflect.New(pt.Elem()).Interface().(tl.Unmarshaler); custom {
		verifrt.Assert(true, "hand-written-codec") // gzip_packed: decode-only pseudo-object (C15/C09 cover its decoder)
		return
	}
	m := len(condFields(pt.Elem()))
	if pat >= 1000 { // 1000+q: the q-th pairwise pattern, whatever m is
		pat = pairwisePat(m, pat-1000)
	}
	if pat >= numPatterns(m) {
		verifrt.Assert(true, "pattern-past-last")
		return
	}
	f := &filler{lenSel: verifrt.Len(4), variant: variant}
	v := reflect.New(pt.Elem())
	f.fillStruct(v.Elem(), pat, depth)
	if !representable(v.Elem()) {
		verifrt.Assert(true, "unrepresentable-value") // C01 checks the refusal
		return
	}
	want, bad := refMarshal(v)
	verifrt.Assert(bad == "", "go-type-matches-schema-line")
	if bad != "" {
		verifrt.Note("mismatch: " + bad)
		return
	}
	var b []byte
	var err error
	otherTraffic(false) // a refused value was serialised just before
	pn := verifrt.Catch(func() { b, err = tl.Marshal(v.Interface()) })
	verifrt.Assert(!pn && err == nil, "marshal-ok")
	if pn || err != nil {
		return
	}
	verifrt.Observe("wire", b)
	verifrt.Observe("ref", want)
	verifrt.Assert(len(b) == len(want), "wire-length-as-schema")
	verifrt.Assert(verifrt.SameBytes(b, want), "wire-bytes-as-schema")

	var o tl.Object
	pn = verifrt.Catch(func() { o, err = tl.DecodeUnknownObject(want) })
	verifrt.Assert(!pn, "decode-schema-bytes-no-panic")
	if pn {
		return
	}
	verifrt.Assert(err == nil, "decode-schema-bytes-ok")
	if err == nil {
		normalize(v.Elem())
		ov := reflect.ValueOf(o)
		verifrt.Assert(ov.Type() == pt, "decode-schema-bytes-type")
		if ov.Type() == pt {
			verifrt.Assert(same(v.Elem(), ov.Elem()), "decode-schema-bytes-value")
		}
	}
}

func H_C02_class(class, k, pat, depth, variant int) { H_C02_wire(pick(class, k), pat, depth, variant) }
