//go:build verif

package telegram

import (
	"reflect"

	"github.com/xelaj/mtproto"
	"github.com/xelaj/mtproto/internal/encoding/tl"
	"github.com/xelaj/mtproto/internal/verifrt"
)

var paramsByName map[string]uint32

func paramsID(name string) (uint32, bool) {
	if paramsByName == nil {
		paramsByName = map[string]uint32{}
		for id, t := range tl.VerifRegistry() {
			if t.Kind() == reflect.Ptr && t.Elem().Kind() == reflect.Struct {
				paramsByName[t.Elem().Name()] = id
			}
		}
	}
	id, ok := paramsByName[name]
	return id, ok
}

// makeOfType: some value of exactly type t (what a server answer of that kind decodes to)
func makeOfType(t reflect.Type, f *filler) reflect.Value {
	v := reflect.New(t).Elem()
	f.fill(v, true, 0)
	return v
}

// H_C13_method: the k-th exported method of *Client.  If it is the generated method of a schema function
// (a registered <Name>Params type exists), it is called with distinguishable symbolic arguments while the
// transport entry points are hooked: the request must be the function's constructor carrying argument i in
// the i-th parameter position, hints must be given exactly for vector results, and the method must hand back
// the server's answer unchanged.
func H_C13_method(k int) {
	c := &Client{MTProto: &mtproto.MTProto{}}
	cv := reflect.ValueOf(c)
	ct := cv.Type()
	if k >= ct.NumMethod() {
		verifrt.Assert(true, "index-past-methods")
		return
	}
	name := ct.Method(k).Name
	id, ok := paramsID(name + "Params")
	if !ok {
		verifrt.Assert(true, "not-a-generated-method")
		return
	}
	d := schemaDef(id)
	verifrt.Note(name)
	verifrt.Assert(d != nil && d.Func, "method-request-is-a-schema-function")
	if d == nil {
		return
	}
	mv := cv.Method(k)
	mt := mv.Type()
	f := &filler{lenSel: 1}
	args := make([]reflect.Value, mt.NumIn())
	for i := range args {
		args[i] = makeOfType(mt.In(i), f)
	}
	verifrt.Assert(mt.NumOut() == 2, "returns-result-and-error")
	if mt.NumOut() != 2 {
		return
	}
	// the answer only has to come back unchanged: which enum members sit inside it does not matter (a symbolic
	// choice per enum leaf made two methods with large vector results explode past the wall limit)
	f = &filler{lenSel: 1, noChoice: true}
	answer := makeOfType(mt.Out(0), f)
	if rt := mt.Out(0); rt.Kind() == reflect.Interface {
		// the declared result is a union: the server may answer with ANY of its constructors (a symbolic choice,
		// one path each), and each of them must come back to the caller
		if impl := implementers(rt); len(impl) > 1 {
			it := tl.VerifRegistry()[impl[verifrt.Choice(len(impl))]]
			verifrt.Note("answer " + it.String())
			answer = reflect.New(rt).Elem()
			if it.Kind() == reflect.Ptr {
				p := reflect.New(it.Elem())
				f.fillStruct(p.Elem(), 0, 0)
				answer.Set(p)
			} else {
				answer.Set(makeOfType(it, f))
			}
		}
	}

	var gotReq tl.Object
	var gotHints []reflect.Type
	calls := 0
	verifrt.Hook("(*github.com/xelaj/mtproto.MTProto).MakeRequest", func(m *mtproto.MTProto, msg tl.Object) (interface{}, error) {
		calls++
		gotReq = msg
		return answer.Interface(), nil
	})
	verifrt.Hook("(*github.com/xelaj/mtproto.MTProto).MakeRequestWithHintToDecoder", func(m *mtproto.MTProto, msg tl.Object, hints ...reflect.Type) (interface{}, error) {
		calls++
		gotReq = msg
		gotHints = hints
		return answer.Interface(), nil
	})
	if !verifrt.Symbolic() {
		verifrt.Assert(true, "engine-only-scenario")
		return
	}
	var out []reflect.Value
	pn := verifrt.Catch(func() { out = mv.Call(args) })
	verifrt.Assert(!pn, "method-no-panic")
	if pn {
		return
	}
	verifrt.Assert(calls == 1, "exactly-one-request")
	if calls != 1 || gotReq == nil {
		return
	}
	rq := reflect.ValueOf(gotReq)
	verifrt.Assert(gotReq.CRC() == d.ID, "request-constructor-is-the-function-id")
	verifrt.Assert(rq.Kind() == reflect.Ptr && rq.Elem().Type().Name() == name+"Params", "request-type")
	if rq.Kind() != reflect.Ptr {
		return
	}
	// arguments in the schema's parameter positions
	if len(args) == 1 && args[0].Type() == rq.Type() {
		verifrt.Assert(args[0].Pointer() == rq.Pointer() || same(args[0].Elem(), rq.Elem()), "params-struct-passed-through")
	} else {
		st := rq.Elem()
		verifrt.Assert(st.NumField() == len(args), "one-argument-per-parameter")
		if st.NumField() == len(args) {
			for i := range args {
				verifrt.Assert(st.Field(i).Type() == args[i].Type() && same(st.Field(i), args[i]), "argument-in-schema-position")
			}
		}
	}
	// result kind: vector results need the decoder hint, others must not give one
	_, _, isVec := isVector(d.Result)
	verifrt.Assert((len(gotHints) > 0) == isVec, "hint-iff-vector-result")
	if isVec && len(gotHints) > 0 {
		verifrt.Assert(gotHints[0] == mt.Out(0), "hint-is-the-declared-slice-type")
		verifrt.Assert(mt.Out(0).Kind() == reflect.Slice, "vector-result-is-a-slice")
	}
	if d.Result == "Bool" {
		verifrt.Assert(mt.Out(0).Kind() == reflect.Bool, "Bool-result-is-bool")
	}
	verifrt.Assert(out[1].IsNil(), "no-error-on-a-well-typed-answer")
	verifrt.Assert(same(out[0], answer), "answer-returned-unchanged")
}
