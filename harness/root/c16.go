//go:build verif

package mtproto

import (
	"io"

	"github.com/xelaj/mtproto/internal/mode"
	"github.com/xelaj/mtproto/internal/mtproto/messages"
	"github.com/xelaj/mtproto/internal/mtproto/objects"
	"github.com/xelaj/mtproto/internal/transport"
	"github.com/xelaj/mtproto/internal/verifrt"
)

// probe issues a ping after the scenario and has the server answer it: requests issued afterwards complete.
func (n *netEnv) probe(tag string) {
	done := false
	var val interface{}
	var err error
	go func() {
		val, err = n.m.MakeRequest(&objects.PingParams{PingID: 424242})
		done = true
	}()
	req := n.nextRequest(nil)
	n.deliver(rpcResult(req.msgID, mustMarshal(&objects.Pong{MsgID: req.msgID, PingID: 424242})), 1)
	verifrt.Quiesce()
	verifrt.Assert(done, tag+"probe-request-completes")
	if done {
		verifrt.Assert(err == nil, tag+"probe-request-no-error")
		p, ok := val.(*objects.Pong)
		verifrt.Assert(ok && p.PingID == 424242, tag+"probe-request-own-answer")
	}
}

// serverMessage builds the body of the kind-th message a server can send (symbolic fields)
func serverMessage(kind int, n *netEnv) (body []byte, name string) {
	i64 := verifrt.I64
	i32 := verifrt.I32
	switch kind {
	case 0:
		return mustMarshal(&objects.Pong{MsgID: i64(), PingID: i64()}), "pong"
	case 1:
		return mustMarshal(&objects.MsgsAck{MsgIDs: []int64{i64(), i64()}}), "msgs_ack"
	case 2:
		return mustMarshal(&objects.NewSessionCreated{FirstMsgID: i64(), UniqueID: i64(), ServerSalt: i64()}), "new_session_created"
	case 3:
		return mustMarshal(&objects.BadMsgNotification{BadMsgID: i64(), BadMsgSeqNo: i32(), Code: i32()}), "bad_msg_notification"
	case 4:
		return rpcResult(123456789, mustMarshal(&objects.Pong{MsgID: 1, PingID: i64()})), "rpc_result-for-unknown-request"
	case 5:
		return append(nle32(0x0badc0de), nle32(uint32(i32()))...), "unregistered-constructor"
	case 6:
		b := mustMarshal(&objects.NewSessionCreated{FirstMsgID: 1, UniqueID: 2, ServerSalt: 3})
		return b[:len(b)-verifrt.Len(len(b)-1)-1], "truncated-body"
	case 7:
		return container(nil, nil, nil), "empty-container"
	case 8:
		inner := container([]int64{nextSrvID()}, []int32{2}, [][]byte{mustMarshal(&objects.Pong{MsgID: 1, PingID: 2})})
		return container([]int64{nextSrvID()}, []int32{4}, [][]byte{inner}), "nested-container"
	case 9:
		return mustMarshal(&objects.FutureSalt{ValidSince: i32(), ValidUntil: i32(), Salt: i64()}), "unexpected-object-as-update"
	case 10:
		return mustMarshal(&objects.MsgsStateInfo{ReqMsgID: i64(), Info: []byte{1, 2, 3}}), "msgs_state_info"
	case 11:
		return mustMarshal(&objects.MsgsDetailedInfo{MsgID: i64(), AnswerMsgID: i64(), Bytes: i32(), Status: i32()}), "msg_detailed_info"
	case 12:
		return mustMarshal(&objects.RpcError{ErrorCode: i32(), ErrorMessage: "X"}), "bare-rpc_error"
	case 13:
		return []byte{}, "empty-body"
	case 14:
		return nle32(0x997275b5), "bare-boolTrue"
	case 15:
		return append(nle32(0x1cb5c415), nle32(0)...), "bare-vector"
	case 16:
		b := rpcResult(i64(), mustMarshal(&objects.Pong{MsgID: 1, PingID: 2}))
		return b[:len(b)-verifrt.Len(len(b)-1)-1], "truncated-rpc_result"
	case 17:
		b := mustMarshal(&objects.BadServerSalt{BadMsgID: i64(), BadMsgSeqNo: i32(), ErrorCode: i32(), NewSalt: i64()})
		return b[:len(b)-verifrt.Len(len(b)-1)-1], "truncated-bad_server_salt"
	case 18:
		b := container([]int64{nextSrvID()}, []int32{2}, [][]byte{mustMarshal(&objects.Pong{MsgID: 1, PingID: 2})})
		return b[:len(b)-verifrt.Len(len(b)-1)-1], "truncated-container"
	case 19:
		return mustMarshal(&objects.BadServerSalt{BadMsgID: i64(), BadMsgSeqNo: i32(), ErrorCode: 48, NewSalt: i64()}), "bad_server_salt-for-unknown-message"
	}
	return nil, ""
}

const nServerMessages = 20

// H_C16_sequence: two server messages in a row (kinds k1, k2; symbolic fields, odd or even seq_no each) reach an
// idle client, then a request is issued: whatever the first message leaves behind (a lock still held, a table
// entry, a goroutine) must not stop the loop at the second one.  One step from the idle state says nothing about
// that; this is two steps.
func H_C16_sequence(k1, k2 int) {
	verifrt.SetClock(1600000000, 0, 1000)
	n := newNetEnv(5)
	n.m.Warnings = make(chan error)
	go func() {
		for range n.m.Warnings {
		}
	}()
	b1, name1 := serverMessage(k1, n)
	b2, name2 := serverMessage(k2, n)
	verifrt.Note(name1 + " then " + name2)
	odd1, odd2 := verifrt.Bool(), verifrt.Bool()
	crashed := verifrt.Catch(func() {
		n.start()
		seq := int32(2)
		if odd1 {
			seq = 3
		}
		n.deliver(b1, seq)
		verifrt.Quiesce()
		seq = 4
		if odd2 {
			seq = 5
		}
		n.deliver(b2, seq)
		verifrt.Quiesce()
		n.probe("after-" + name1 + "-then-" + name2 + "-")
	})
	if crashed {
		verifrt.Note("crash: " + verifrt.PanicMsg())
	}
	verifrt.Assert(!crashed, "process-survives")
}

// H_C16_message: one arbitrary server message of the given kind (odd or even seq_no) reaches a client that is
// idle; the process survives, the receive loop keeps running and a request issued afterwards completes.
func H_C16_message(kind, warn int) {
	verifrt.SetClock(1600000000, 0, 1000)
	n := newNetEnv(5)
	var warned int
	if warn != 0 {
		n.m.Warnings = make(chan error)
		go func() {
			for range n.m.Warnings {
				warned++
			}
		}()
	}
	body, name := serverMessage(kind, n)
	verifrt.Note(name)
	odd := verifrt.Bool()
	crashed := verifrt.Catch(func() {
		n.start()
		seq := int32(2)
		if odd {
			seq = 3
		}
		n.deliver(body, seq)
		verifrt.Quiesce()
		n.probe("after-" + name + "-")
	})
	if crashed {
		verifrt.Note("crash: " + verifrt.PanicMsg())
	}
	verifrt.Assert(!crashed, "process-survives")
	verifrt.Assert(!crashed, "process-survives-"+name)
}

// H_C16_repeated: an rpc_result for a request that was already answered (repeated result) is harmless.
func H_C16_repeated() {
	verifrt.SetClock(1600000000, 0, 1000)
	n := newNetEnv(5)
	crashed := verifrt.Catch(func() {
		n.start()
		n.probe("first-")
		last := n.t.log[0]
		n.deliver(rpcResult(last.msgID, mustMarshal(&objects.Pong{MsgID: last.msgID, PingID: 424242})), 3)
		verifrt.Quiesce()
		n.probe("after-repeated-result-")
	})
	if crashed {
		verifrt.Note("crash: " + verifrt.PanicMsg())
	}
	verifrt.Assert(!crashed, "process-survives")
}

// H_C16_reconnect: the server closes the connection (io.EOF at a message boundary): the client reconnects
// with the same auth key - no new key exchange - and later requests complete over the new connection.
func H_C16_reconnect() {
	verifrt.SetClock(1600000000, 0, 1000)
	n := newNetEnv(5)
	key := n.m.authKey
	var second *fakeTransport
	dials := 0
	verifrt.Hook("github.com/xelaj/mtproto/internal/transport.NewTransport", func(m messages.MessageInformator, conn transport.ConnConfig, v mode.Variant) (transport.Transport, error) {
		dials++
		second = &fakeTransport{m: n.m, out: make(chan sentMsg, 256), in: make(chan srvMsg, 64)}
		return second, nil
	})
	if !verifrt.Symbolic() {
		verifrt.Assert(true, "engine-only-scenario")
		return
	}
	crashed := verifrt.Catch(func() {
		n.start()
		n.t.in <- srvMsg{err: io.EOF}
		verifrt.Quiesce()
		verifrt.Assert(dials == 1, "reconnected-once")
		verifrt.Assert(second != nil && n.m.transport == transport.Transport(second), "new-transport-installed")
		verifrt.Assert(n.m.encrypted && verifrt.SameBytes(n.m.authKey, key), "same-auth-key-no-new-key-exchange")
		if second != nil {
			n.t = second
			n.probe("after-reconnect-")
		}
	})
	if crashed {
		verifrt.Note("crash: " + verifrt.PanicMsg())
	}
	verifrt.Assert(!crashed, "process-survives")
}

// H_C16_names_client_message: after one answered request (which the client acknowledges), the server sends a
// message that names a msg_id the client itself has used - the answered request's or the acknowledgement's
// (symbolic choice) - in each field that carries such an id. A real server does this (bad_server_salt for every
// message that carried the old salt, repeated results, state info). The loop survives, later requests complete.
func H_C16_names_client_message(kind int) {
	verifrt.SetClock(1600000000, 0, 1000)
	n := newNetEnv(5)
	n.m.Warnings = make(chan error)
	go func() {
		for range n.m.Warnings {
		}
	}()
	crashed := verifrt.Catch(func() {
		n.start()
		n.probe("first-")
		verifrt.Quiesce()
		log := n.t.log
		verifrt.Assert(len(log) >= 2, "client-acknowledged-the-answer")
		if len(log) == 0 {
			return
		}
		id := log[verifrt.Choice(len(log))].msgID
		var body []byte
		name := ""
		switch kind {
		case 0:
			body, name = mustMarshal(&objects.BadServerSalt{BadMsgID: id, BadMsgSeqNo: verifrt.I32(), ErrorCode: 48, NewSalt: verifrt.I64()}), "bad_server_salt"
		case 1:
			body, name = rpcResult(id, mustMarshal(&objects.Pong{MsgID: id, PingID: verifrt.I64()})), "rpc_result"
		case 2:
			body, name = mustMarshal(&objects.BadMsgNotification{BadMsgID: id, BadMsgSeqNo: verifrt.I32(), Code: verifrt.I32()}), "bad_msg_notification"
		case 3:
			body, name = mustMarshal(&objects.MsgsAck{MsgIDs: []int64{id}}), "msgs_ack"
		case 4:
			body, name = mustMarshal(&objects.Pong{MsgID: id, PingID: verifrt.I64()}), "pong"
		case 5:
			body, name = rpcResult(id, mustMarshal(&objects.RpcError{ErrorCode: verifrt.I32(), ErrorMessage: "X"})), "rpc_result-rpc_error"
		case 6:
			body, name = mustMarshal(&objects.MsgsDetailedInfo{MsgID: id, AnswerMsgID: verifrt.I64(), Bytes: 1, Status: 1}), "msg_detailed_info"
		case 7:
			body, name = mustMarshal(&objects.MsgsStateInfo{ReqMsgID: id, Info: []byte{1}}), "msgs_state_info"
		}
		verifrt.Note(name)
		seq := int32(2)
		if verifrt.Bool() {
			seq = 3
		}
		n.deliver(body, seq)
		verifrt.Quiesce()
		n.probe("after-naming-" + name + "-")
	})
	if crashed {
		verifrt.Note("crash: " + verifrt.PanicMsg())
	}
	verifrt.Assert(!crashed, "process-survives")
}
