//go:build verif

package mtproto

import (
	"reflect"

	"github.com/xelaj/mtproto/internal/mtproto/objects"
	"github.com/xelaj/mtproto/internal/verifrt"
)

// H_C09_results: k concurrent callers; the server answers in a chosen order and packaging; every caller gets
// exactly the result addressed to its own request.
//   kind 0: object results (pong with a distinguishing ping_id), 1: Bool, 2: bare Vector<long> with hint.
//   pack 0: plain messages, 1: all answers in one container, 2/3: the same with a symbolic subset of the results
//   gzip-packed inside their rpc_result.
func H_C09_results(k, kind, pack int) {
	verifrt.SetClock(1600000000, 500000000, c09ClockStep)
	n := newNetEnv(11)
	n.startReader()
	type outcome struct {
		val  interface{}
		err  error
		done int
	}
	res := make([]outcome, k)
	tokens := make([]int64, k)
	for i := 0; i < k; i++ {
		tokens[i] = verifrt.I64()
	}
	for i := 0; i < k; i++ {
		go func(i int) {
			var v interface{}
			var err error
			req := &objects.PingParams{PingID: int64(1000 + i)}
			if kind == 2 {
				v, err = n.m.MakeRequestWithHintToDecoder(req, reflect.TypeOf([]int64{}))
			} else {
				v, err = n.m.MakeRequest(req)
			}
			res[i].val, res[i].err = v, err
			res[i].done++
		}(i)
	}
	// the server learns which request is which from the ping_id it carries
	reqs := make([]sentMsg, k)
	owner := make([]int, k)
	var acks []sentMsg
	for j := 0; j < k; j++ {
		reqs[j] = n.nextRequest(&acks)
		body := reqs[j].body
		pid := int64(uint64(body[4]) | uint64(body[5])<<8 | uint64(body[6])<<16 | uint64(body[7])<<24)
		owner[j] = int(pid - 1000)
	}
	// answer order: a chosen permutation of the requests
	order := make([]int, 0, k)
	used := make([]bool, k)
	for len(order) < k {
		c := verifrt.Choice(k - len(order))
		for j := 0; j < k; j++ {
			if used[j] {
				continue
			}
			if c == 0 {
				used[j] = true
				order = append(order, j)
				break
			}
			c--
		}
	}
	bodies := make([][]byte, 0, k)
	for _, j := range order {
		i := owner[j]
		var result []byte
		switch kind {
		case 0:
			result = mustMarshal(&objects.Pong{MsgID: reqs[j].msgID, PingID: tokens[i]})
		case 1:
			if tokens[i]&1 == 1 {
				result = nle32(0x997275b5)
			} else {
				result = nle32(0xbc799737)
			}
		case 2:
			result = vectorOfLongs([]int64{tokens[i], int64(i)})
		}
		if pack >= 2 && verifrt.Bool() {
			// the server packs large answers: rpc_result carrying gzip_packed (a symbolic subset of the answers)
			result = gzipPacked(result)
		}
		bodies = append(bodies, rpcResult(reqs[j].msgID, result))
	}
	if pack == 1 || pack == 3 {
		ids := make([]int64, k)
		seqs := make([]int32, k)
		for x := range ids {
			ids[x] = nextSrvID()
			seqs[x] = int32(2*x + 1)
		}
		n.deliver(container(ids, seqs, bodies), 100)
	} else {
		for x, b := range bodies {
			n.deliver(b, int32(2*x+1))
		}
	}
	verifrt.Quiesce()
	verifrt.Assert(n.loopErr == nil, "receive-loop-alive")
	for i := 0; i < k; i++ {
		verifrt.Assert(res[i].done == 1, "caller-returned-exactly-once")
		if res[i].done != 1 {
			continue
		}
		verifrt.Assert(res[i].err == nil, "caller-no-error")
		if res[i].err != nil {
			continue
		}
		switch kind {
		case 0:
			p, ok := res[i].val.(*objects.Pong)
			verifrt.Assert(ok, "result-kind-object")
			if ok {
				verifrt.Assert(p.PingID == tokens[i], "caller-got-its-own-result")
			}
		case 1:
			b, ok := res[i].val.(bool)
			verifrt.Assert(ok, "result-kind-bool")
			if ok {
				verifrt.Assert(b == (tokens[i]&1 == 1), "caller-got-its-own-result")
			}
		case 2:
			v, ok := res[i].val.([]int64)
			verifrt.Assert(ok, "result-kind-typed-slice")
			if ok {
				verifrt.Assert(len(v) == 2, "vector-length")
				if len(v) == 2 {
					verifrt.Assert(v[0] == tokens[i] && v[1] == int64(i), "caller-got-its-own-result")
				}
			}
		}
	}
	// every content-related server message is acknowledged (C10c) - collected for information
	rest := n.drain()
	_ = rest
}

// c09ClockStep: nanoseconds the stub clock advances per reading (1 us by default)
var c09ClockStep int64 = 1000

// H_C09_clock: the same scenarios under a clock that stands still (step 0: coarse clock, several requests within
// one reading) or runs backwards (negative step: the clock is set back while requests are outstanding).  The ids
// under which the calls are registered must still be distinct, so every caller still gets its own result.
func H_C09_clock(k, kind, pack, step int) {
	c09ClockStep = int64(step)
	defer func() { c09ClockStep = 1000 }()
	H_C09_results(k, kind, pack)
}

// H_C09_error_for_hinted: caller A declared a vector result (decoder hint), caller B an object.  The server answers
// A with an rpc_error - a call that declares a vector can fail like any other - and B with its object; plain
// messages (pack 0) or one container with A's error first (pack 1); optionally gzip-packed error (pack 2).
// A gets the error (with the server's code), B its own result, the loop survives.
func H_C09_error_for_hinted(pack int) {
	verifrt.SetClock(1600000000, 0, 1000)
	n := newNetEnv(11)
	n.startReader()
	var vals [2]interface{}
	var errsGot [2]error
	var done [2]int
	for i := 0; i < 2; i++ {
		go func(i int) {
			req := &objects.PingParams{PingID: int64(1000 + i)}
			if i == 0 {
				vals[i], errsGot[i] = n.m.MakeRequestWithHintToDecoder(req, reflect.TypeOf([]int64{}))
			} else {
				vals[i], errsGot[i] = n.m.MakeRequest(req)
			}
			done[i]++
		}(i)
	}
	var acks []sentMsg
	var reqs [2]sentMsg
	for j := 0; j < 2; j++ {
		r := n.nextRequest(&acks)
		b := r.body
		reqs[int(int64(uint64(b[4])|uint64(b[5])<<8|uint64(b[6])<<16|uint64(b[7])<<24)-1000)] = r
	}
	code := verifrt.I32()
	token := verifrt.I64()
	errBody := mustMarshal(&objects.RpcError{ErrorCode: code, ErrorMessage: "SOMETHING_WRONG"})
	if pack == 2 {
		errBody = gzipPacked(errBody)
	}
	bodies := [][]byte{rpcResult(reqs[0].msgID, errBody), rpcResult(reqs[1].msgID, mustMarshal(&objects.Pong{MsgID: reqs[1].msgID, PingID: token}))}
	if pack == 1 {
		n.deliver(container([]int64{nextSrvID(), nextSrvID()}, []int32{1, 3}, bodies), 100)
	} else {
		first := verifrt.Choice(2)
		n.deliver(bodies[first], 1)
		n.deliver(bodies[1-first], 3)
	}
	verifrt.Quiesce()
	verifrt.Assert(n.loopErr == nil, "receive-loop-alive")
	verifrt.Assert(done[0] == 1, "hinted-caller-returned-exactly-once")
	if done[0] == 1 {
		verifrt.Assert(errsGot[0] != nil && vals[0] == nil, "hinted-caller-got-the-error")
		if e, ok := errsGot[0].(*ErrResponseCode); ok {
			verifrt.Assert(e.Code == int(code), "hinted-caller-got-the-server-code")
		} else {
			verifrt.Assert(false, "hinted-caller-error-is-structured")
		}
	}
	verifrt.Assert(done[1] == 1, "other-caller-returned-exactly-once")
	if done[1] == 1 {
		p, ok := vals[1].(*objects.Pong)
		verifrt.Assert(errsGot[1] == nil && ok && p.PingID == token, "other-caller-got-its-own-result")
	}
}
