//go:build verif

package mtproto

import (
	"reflect"

	"github.com/xelaj/mtproto/internal/mtproto/objects"
	"github.com/xelaj/mtproto/internal/verifrt"
)

type caller struct {
	val  interface{}
	err  error
	done int
}

func badServerSalt(badID int64, newSalt int64) []byte {
	return mustMarshal(&objects.BadServerSalt{BadMsgID: badID, BadMsgSeqNo: 1, ErrorCode: 48, NewSalt: newSalt})
}

func pingIDOf(body []byte) int64 {
	return int64(uint64(body[4]) | uint64(body[5])<<8 | uint64(body[6])<<16 | uint64(body[7])<<24 | uint64(body[8])<<32)
}

// H_C11_rotation: n requests in flight; the server rejects a chosen non-empty subset with bad_server_salt
// (new salt S1) and accepts the others, answering them after the rotation; rotations = 2 repeats the rejection
// once more (salt S2) for the re-sent requests.  Expected: the new salt is adopted and stored; exactly the
// rejected requests are written again, under the new salt; accepted ones are not written twice; every caller
// gets its own answer; the receive loop neither dies nor stalls.
func H_C11_rotation(n, rotations int) {
	verifrt.SetClock(1600000000, 0, 1000)
	env := newNetEnv(100)
	callers := make([]caller, n)
	rejected := make([]bool, n)
	any := false
	for i := range rejected {
		rejected[i] = verifrt.Bool()
		if rejected[i] {
			any = true
		}
	}
	verifrt.Assume(any)
	salts := []int64{verifrt.I64(), verifrt.I64()}
	verifrt.Assume(salts[0] != 100 && salts[1] != 100 && salts[0] != salts[1])

	crashed := verifrt.Catch(func() {
		env.start()
		for i := 0; i < n; i++ {
			go func(i int) {
				callers[i].val, callers[i].err = env.m.MakeRequest(&objects.PingParams{PingID: int64(1000 + i)})
				callers[i].done++
			}(i)
		}
		first := make([]sentMsg, n) // the first transmission of caller i's request
		for j := 0; j < n; j++ {
			s := env.nextRequest(nil)
			first[pingIDOf(s.body)-1000] = s
			verifrt.Assert(s.salt == 100, "first-transmission-under-old-salt")
		}
		current := make([]sentMsg, n)
		copy(current, first)
		writes := make([]int, n)
		for i := range writes {
			writes[i] = 1
		}
		for r := 0; r < rotations; r++ {
			for i := 0; i < n; i++ {
				if !rejected[i] {
					continue
				}
				env.deliver(badServerSalt(current[i].msgID, salts[r]), 2)
				// the client must write exactly this request again
				s := env.nextRequest(nil)
				who := int(pingIDOf(s.body) - 1000)
				verifrt.Assert(who == i, "resent-request-is-the-rejected-one")
				verifrt.Assert(s.salt == salts[r], "resent-under-new-salt")
				verifrt.Assert(s.msgID > current[i].msgID, "resent-with-new-msg-id")
				if who >= 0 && who < n {
					writes[who]++
					current[who] = s
				}
			}
			verifrt.Quiesce()
			verifrt.Assert(env.m.serverSalt == salts[r], "new-salt-adopted")
			verifrt.Assert(len(env.store.stored) > 0 && env.store.stored[len(env.store.stored)-1].Salt == salts[r], "new-salt-stored")
		}
		// nothing else may have been written (an accepted request is never sent a second time)
		extra := env.drain()
		for _, s := range extra {
			if len(s.body) >= 4 && s.body[0] == 0x59 && s.body[1] == 0xb4 { // msgs_ack
				continue
			}
			verifrt.Assert(false, "accepted-request-written-again")
		}
		// now the server answers every request under the id of its latest transmission
		for i := 0; i < n; i++ {
			env.deliver(rpcResult(current[i].msgID, mustMarshal(&objects.Pong{MsgID: current[i].msgID, PingID: int64(5000 + i)})), int32(2*i+1))
		}
		verifrt.Quiesce()
		for i := 0; i < n; i++ {
			verifrt.Assert(callers[i].done == 1, "caller-returned-exactly-once")
			if callers[i].done == 1 {
				p, ok := callers[i].val.(*objects.Pong)
				verifrt.Assert(callers[i].err == nil && ok && p.PingID == int64(5000+i), "caller-got-its-own-answer")
			}
			if rejected[i] {
				verifrt.Assert(writes[i] == 1+rotations, "rejected-request-written-once-per-rejection")
			} else {
				verifrt.Assert(writes[i] == 1, "accepted-request-written-once")
			}
		}
		env.probe("after-rotation-")
	})
	if crashed {
		verifrt.Note("crash: " + verifrt.PanicMsg())
	}
	verifrt.Assert(!crashed, "process-survives")
}

// H_C11_new_session: new_session_created announces a salt: adopted and written to the session store.
func H_C11_new_session() {
	verifrt.SetClock(1600000000, 0, 1000)
	env := newNetEnv(100)
	salt := verifrt.I64()
	crashed := verifrt.Catch(func() {
		env.start()
		env.deliver(mustMarshal(&objects.NewSessionCreated{FirstMsgID: verifrt.I64(), UniqueID: verifrt.I64(), ServerSalt: salt}), 1)
		verifrt.Quiesce()
		verifrt.Assert(env.m.serverSalt == salt, "announced-salt-adopted")
		verifrt.Assert(len(env.store.stored) == 1 && env.store.stored[0].Salt == salt, "announced-salt-stored")
		env.probe("after-new-session-")
	})
	verifrt.Assert(!crashed, "process-survives")
}

// H_C11_rotation_nobody_waiting: the n = 0 case - bad_server_salt names a message nobody waits for: an id the
// client never used (symbolic), the client's own acknowledgement, or a request that was already answered.  The
// salt is adopted and written to the store all the same, nothing stalls, and the next request goes out under it.
func H_C11_rotation_nobody_waiting(kind int) {
	verifrt.SetClock(1600000000, 0, 1000)
	env := newNetEnv(100)
	salt := verifrt.I64()
	verifrt.Assume(salt != 100)
	crashed := verifrt.Catch(func() {
		env.start()
		id := verifrt.I64()
		if kind != 0 {
			env.probe("first-")
			verifrt.Quiesce()
			log := env.t.log
			if len(log) < 2 {
				verifrt.Assert(false, "client-acknowledged-the-answer")
				return
			}
			id = log[0].msgID // the answered request
			if kind == 2 {
				id = log[len(log)-1].msgID // the acknowledgement
			}
		}
		stored0 := len(env.store.stored)
		env.deliver(mustMarshal(&objects.BadServerSalt{BadMsgID: id, BadMsgSeqNo: verifrt.I32(), ErrorCode: 48, NewSalt: salt}), 2)
		verifrt.Quiesce()
		verifrt.Assert(env.m.serverSalt == salt, "new-salt-adopted-with-nobody-waiting")
		verifrt.Assert(len(env.store.stored) > stored0 && env.store.stored[len(env.store.stored)-1].Salt == salt, "new-salt-stored-with-nobody-waiting")
		before := len(env.t.log)
		env.probe("after-rotation-nobody-waiting-")
		if len(env.t.log) > before {
			verifrt.Assert(env.t.log[before].salt == salt, "next-request-under-the-new-salt")
		}
	})
	verifrt.Assert(!crashed, "process-survives")
}

// H_C11_rotation_hinted: the rejected request is one that declares a bare-vector result (sent with a decoder
// hint, like every generated method returning Vector<T>).  After `rotations` rejections it is answered with a
// bare vector under the id of its latest transmission: the caller receives the typed slice, exactly once - the
// re-sent request carries its hints along.
func H_C11_rotation_hinted(rotations int) {
	verifrt.SetClock(1600000000, 0, 1000)
	env := newNetEnv(100)
	var c caller
	salts := []int64{verifrt.I64(), verifrt.I64()}
	verifrt.Assume(salts[0] != 100 && salts[1] != 100 && salts[0] != salts[1])
	tok := verifrt.I64()
	crashed := verifrt.Catch(func() {
		env.start()
		go func() {
			c.val, c.err = env.m.MakeRequestWithHintToDecoder(&objects.PingParams{PingID: 1000}, reflect.TypeOf([]int64{}))
			c.done++
		}()
		cur := env.nextRequest(nil)
		for r := 0; r < rotations; r++ {
			env.deliver(badServerSalt(cur.msgID, salts[r]), 2)
			s := env.nextRequest(nil)
			verifrt.Assert(pingIDOf(s.body) == 1000 && s.salt == salts[r] && s.msgID > cur.msgID, "hinted-request-resent-under-new-salt")
			cur = s
		}
		env.deliver(rpcResult(cur.msgID, vectorOfLongs([]int64{tok, 7})), 1)
		verifrt.Quiesce()
		verifrt.Assert(c.done == 1, "hinted-caller-returned-exactly-once")
		if c.done == 1 {
			v, ok := c.val.([]int64)
			verifrt.Assert(c.err == nil && ok && len(v) == 2 && v[0] == tok && v[1] == 7, "hinted-caller-got-its-typed-slice")
		}
		env.probe("after-hinted-rotation-")
	})
	if crashed {
		verifrt.Note("crash: " + verifrt.PanicMsg())
	}
	verifrt.Assert(!crashed, "process-survives")
}
