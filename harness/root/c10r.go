//go:build verif

package mtproto

import (
	"io"

	"github.com/xelaj/mtproto/internal/mode"
	"github.com/xelaj/mtproto/internal/mtproto/messages"
	"github.com/xelaj/mtproto/internal/mtproto/objects"
	"github.com/xelaj/mtproto/internal/transport"
	"github.com/xelaj/mtproto/internal/verifrt"
)

// H_C10_reconnect: the session outlives a TCP connection.  A request goes out (seq_no s0|1), is answered, the
// server closes the connection, the client reconnects by itself (same session id) and sends the next request
// over the new connection: along the whole written stream - old connection then new one - msg_ids still
// increase, content-related messages are odd and seq_no does not decrease.
func H_C10_reconnect() {
	verifrt.SetClock(1600000000, 0, 1000)
	n := newNetEnv(5)
	s0 := verifrt.I32()
	verifrt.Assume(s0&1 == 0)
	verifrt.Assume(s0 >= 0 && s0 < 0x7ffffff0)
	n.m.seqNo = s0
	session := n.m.sessionId
	var second *fakeTransport
	verifrt.Hook("github.com/xelaj/mtproto/internal/transport.NewTransport", func(m messages.MessageInformator, conn transport.ConnConfig, v mode.Variant) (transport.Transport, error) {
		second = &fakeTransport{m: n.m, out: make(chan sentMsg, 256), in: make(chan srvMsg, 64)}
		return second, nil
	})
	if !verifrt.Symbolic() {
		verifrt.Assert(true, "engine-only-scenario")
		return
	}
	crashed := verifrt.Catch(func() {
		n.start()
		go func() { _, _ = n.m.MakeRequest(&objects.PingParams{PingID: 1}) }()
		r1 := n.nextRequest(nil)
		n.deliver(rpcResult(r1.msgID, mustMarshal(&objects.Pong{MsgID: r1.msgID, PingID: 1})), 1)
		verifrt.Quiesce()
		n.t.in <- srvMsg{err: io.EOF}
		verifrt.Quiesce()
		verifrt.Assert(second != nil, "reconnected")
		if second == nil {
			return
		}
		verifrt.Assert(n.m.sessionId == session, "same-session-after-reconnect")
		old := n.t
		n.t = second
		go func() { _, _ = n.m.MakeRequest(&objects.PingParams{PingID: 2}) }()
		r2 := n.nextRequest(nil)
		verifrt.Assert(r2.seqNo&1 == 1, "content-related-seq-no-odd-after-reconnect")
		verifrt.Assert(r2.msgID > r1.msgID && r2.msgID&3 == 0, "msg-id-increases-across-reconnect")
		// everything written, in order: old connection's log, then the new one's
		last := int32(-1)
		for _, s := range append(append([]sentMsg{}, old.log...), second.log...) {
			if !s.enc {
				continue
			}
			verifrt.Assert(s.seqNo >= last-1 || last < 0, "seq-no-never-decreases-across-reconnect")
			if s.seqNo > last {
				last = s.seqNo
			}
		}
		verifrt.Assert(r2.seqNo > r1.seqNo, "later-request-has-larger-seq-no")
	})
	if crashed {
		verifrt.Note("crash: " + verifrt.PanicMsg())
	}
	verifrt.Assert(!crashed, "process-survives")
}
