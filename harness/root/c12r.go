//go:build verif

package mtproto

import (
	"github.com/xelaj/mtproto/internal/mode"
	"github.com/xelaj/mtproto/internal/mtproto/messages"
	"github.com/xelaj/mtproto/internal/mtproto/objects"
	"github.com/xelaj/mtproto/internal/session"
	"github.com/xelaj/mtproto/internal/transport"
	"github.com/xelaj/mtproto/internal/verifrt"
)

const c12HostAlpha = "-.0123456789:abcdefghijklmnopqrstuvwxyz"

// H_C12_resume: a session (symbolic key, hash, salt, address) is written by the file store; a client created on
// that file - with no configured host, a different one, or the same one (cfg 0/1/2) - resumes with exactly that
// key, key id, salt and address, dials that address (transport factory hooked inside the engine), performs no key
// exchange (nothing is written before the first request, which goes out encrypted under the stored salt).
// cfg 3: no file - the client starts unkeyed on the configured host.
func H_C12_resume(cfg, keyLen, hostLen int) {
	if !verifrt.Symbolic() {
		verifrt.Assert(true, "engine-only-scenario") // writes files and hooks the transport factory
		return
	}
	verifrt.SetClock(1600000000, 0, 1000)
	path := "verif-c12-session.json"
	hb := make([]byte, hostLen)
	for i := range hb {
		hb[i] = verifrt.ByteIn(c12HostAlpha)
	}
	want := &session.Session{Key: verifrt.Bytes(keyLen), Hash: verifrt.Bytes(8), Salt: verifrt.I64(), Hostname: string(hb)}
	configured := []string{"", "149.154.167.50:443", want.Hostname, "149.154.167.50:443"}[cfg]
	if cfg != 3 {
		err := session.NewFromFile(path).Store(want)
		verifrt.Assert(err == nil, "resume-store-ok")
		if err != nil {
			return
		}
	}
	var ft *fakeTransport
	var m *MTProto
	dials := 0
	dialled := ""
	verifrt.Hook("github.com/xelaj/mtproto/internal/transport.NewTransport", func(mi messages.MessageInformator, conn transport.ConnConfig, v mode.Variant) (transport.Transport, error) {
		dials++
		if c, ok := conn.(transport.TCPConnConfig); ok {
			dialled = c.Host
		}
		ft = &fakeTransport{m: m, out: make(chan sentMsg, 256), in: make(chan srvMsg, 64)}
		return ft, nil
	})
	var err error
	crashed := verifrt.Catch(func() {
		m, err = NewMTProto(Config{AuthKeyFile: path, ServerHost: configured})
		verifrt.Assert(err == nil && m != nil, "resume-client-created")
		if err != nil || m == nil {
			return
		}
		if cfg == 3 {
			verifrt.Assert(!m.encrypted && len(m.authKey) == 0, "no-session-client-starts-unkeyed")
			verifrt.Assert(m.addr == configured, "no-session-client-uses-configured-host")
			return
		}
		verifrt.Assert(m.encrypted, "resume-is-keyed")
		verifrt.Assert(verifrt.SameBytes(m.authKey, want.Key), "resume-same-key")
		verifrt.Assert(verifrt.SameBytes(m.authKeyHash, want.Hash), "resume-same-key-id")
		verifrt.Assert(m.serverSalt == want.Salt, "resume-same-salt")
		verifrt.Assert(verifrt.SameString(m.addr, want.Hostname), "resume-same-address")
		err = m.CreateConnection()
		verifrt.Assert(err == nil, "resume-connects")
		if err != nil || ft == nil {
			return
		}
		verifrt.Assert(dials == 1 && verifrt.SameString(dialled, want.Hostname), "resume-dials-the-stored-address")
		verifrt.Quiesce()
		verifrt.Assert(len(ft.log) == 0, "resume-without-key-exchange")
		n := &netEnv{m: m, t: ft}
		before := len(ft.log)
		n.probe("after-resume-")
		if len(ft.log) > before {
			verifrt.Assert(ft.log[before].enc && ft.log[before].salt == want.Salt, "first-request-encrypted-under-the-stored-salt")
		}
	})
	if crashed {
		verifrt.Note("crash: " + verifrt.PanicMsg())
	}
	verifrt.Assert(!crashed, "process-survives")
}

var _ = objects.Null{}
