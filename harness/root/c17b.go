//go:build verif

package mtproto

import (
	"reflect"
	"github.com/xelaj/mtproto/internal/mode"
	"github.com/xelaj/mtproto/internal/mtproto/messages"
	"github.com/xelaj/mtproto/internal/mtproto/objects"
	"github.com/xelaj/mtproto/internal/transport"
	"github.com/xelaj/mtproto/internal/verifrt"
)

type c17Outcome struct {
	val  interface{}
	err  error
	done int
}

// errText builds the error text of one scenario: row < 0: an arbitrary text of 0..6 bytes; otherwise the row's
// prefix, a 1..2 digit parameter (symbolic digits) and its suffix.  PHONE_MIGRATE_ (row 9) is the migration case
// and has its own harness.
func c17ErrText(row int) (text string, numeric bool, want string, val int) {
	if row < 0 {
		return verifrt.String(verifrt.Len(6)), false, "", 0
	}
	d1 := verifrt.ByteIn("0123456789")
	s := string([]byte{d1})
	val = int(d1 - '0')
	if verifrt.Bool() {
		d2 := verifrt.ByteIn("0123456789")
		s += string([]byte{d2})
		val = val*10 + int(d2-'0')
	}
	return refRows[row][0] + s + refRows[row][1], true, refRows[row][0] + "X" + refRows[row][1], val
}

// H_C17_delivery: two callers in flight; the server answers one of them (symbolic choice, either order) with
// rpc_error(code, text) and the other with its pong.  The error reaches exactly the caller of the request it
// names, as *ErrResponseCode with the server's code (and X / parameter for table rows); the other caller gets
// its own result.
func H_C17_delivery(row int) {
	verifrt.SetClock(1600000000, 0, 1000)
	n := newNetEnv(11)
	n.start()
	res := make([]c17Outcome, 2)
	for i := 0; i < 2; i++ {
		go func(i int) {
			v, err := n.m.MakeRequest(&objects.PingParams{PingID: int64(1000 + i)})
			res[i].val, res[i].err = v, err
			res[i].done++
		}(i)
	}
	reqs := make([]sentMsg, 2)
	owner := make([]int, 2)
	for j := 0; j < 2; j++ {
		reqs[j] = n.nextRequest(nil)
		b := reqs[j].body
		owner[j] = int(int64(uint64(b[4])|uint64(b[5])<<8|uint64(b[6])<<16|uint64(b[7])<<24) - 1000)
	}
	code := verifrt.I32()
	text, numeric, want, val := c17ErrText(row)
	bad := verifrt.Choice(2)   // which request (in sending order) fails
	first := verifrt.Choice(2) // which is answered first
	for step := 0; step < 2; step++ {
		j := (first + step) % 2
		if j == bad {
			n.deliver(rpcResult(reqs[j].msgID, mustMarshal(&objects.RpcError{ErrorCode: code, ErrorMessage: text})), 1)
		} else {
			n.deliver(rpcResult(reqs[j].msgID, mustMarshal(&objects.Pong{MsgID: reqs[j].msgID, PingID: int64(1000 + owner[j])})), 1)
		}
	}
	verifrt.Quiesce()
	for j := 0; j < 2; j++ {
		r := res[owner[j]]
		verifrt.Assert(r.done == 1, "caller-returns-once")
		if r.done != 1 {
			continue
		}
		if j != bad {
			p, ok := r.val.(*objects.Pong)
			verifrt.Assert(r.err == nil && ok && p.PingID == int64(1000+owner[j]), "other-caller-gets-its-own-result")
			continue
		}
		verifrt.Assert(r.err != nil && r.val == nil, "rpc_error-returned-as-error-to-its-caller")
		e, ok := r.err.(*ErrResponseCode)
		verifrt.Assert(ok, "rpc_error-is-structured")
		if !ok {
			continue
		}
		verifrt.Assert(e.Code == int(code), "delivered-code-is-server-code")
		if numeric {
			verifrt.Assert(e.Message == want, "delivered-message-has-X")
			got, isInt := e.AdditionalInfo.(int)
			verifrt.Assert(isInt && got == val, "delivered-parameter")
		} else {
			// no table row fits in 6 bytes: the text comes back unchanged
			verifrt.Assert(verifrt.SameString(e.Message, text), "delivered-text")
			verifrt.Assert(e.AdditionalInfo == nil, "delivered-text-no-parameter")
		}
	}
	n.probe("after-rpc_error-")
}

// H_C17_migrate: PHONE_MIGRATE_d for a symbolic digit d against a list that configures data centres 2 and 4.
// Configured: the client dials exactly the configured address (transport factory hooked inside the engine),
// repeats the same request there and hands its answer to the caller; unconfigured: the caller gets an error and
// nothing is dialled.  other=1: a second call is in flight meanwhile (it must not crash the client).
func H_C17_migrate(other int) {
	verifrt.SetClock(1600000000, 0, 1000)
	n := newNetEnv(11)
	n.m.dclist = map[int]string{2: "10.0.0.2:443", 4: "10.0.0.4:443"}
	var second *fakeTransport
	dials := 0
	dialled := ""
	verifrt.Hook("github.com/xelaj/mtproto/internal/transport.NewTransport", func(m messages.MessageInformator, conn transport.ConnConfig, v mode.Variant) (transport.Transport, error) {
		dials++
		if c, ok := conn.(transport.TCPConnConfig); ok {
			dialled = c.Host
		}
		second = &fakeTransport{m: n.m, out: make(chan sentMsg, 256), in: make(chan srvMsg, 64)}
		return second, nil
	})
	if !verifrt.Symbolic() {
		verifrt.Assert(true, "engine-only-scenario")
		return
	}
	crashed := verifrt.Catch(func() {
		n.start()
		var res, res2 c17Outcome
		hinted := other == 2 // the migrated call declared a vector result (decoder hint): the repeated request must still carry it
		go func() {
			var v interface{}
			var err error
			if hinted {
				v, err = n.m.MakeRequestWithHintToDecoder(&objects.PingParams{PingID: 1000}, reflect.TypeOf([]int64{}))
			} else {
				v, err = n.m.MakeRequest(&objects.PingParams{PingID: 1000})
			}
			res.val, res.err = v, err
			res.done++
		}()
		req := n.nextRequest(nil)
		if other == 1 {
			go func() {
				v, err := n.m.MakeRequest(&objects.PingParams{PingID: 2000})
				res2.val, res2.err = v, err
				res2.done++
			}()
			n.nextRequest(nil)
		}
		d := verifrt.ByteIn("0123456789")
		n.deliver(rpcResult(req.msgID, mustMarshal(&objects.RpcError{ErrorCode: 303, ErrorMessage: "PHONE_MIGRATE_" + string([]byte{d})})), 1)
		verifrt.Quiesce()
		if d == '2' || d == '4' {
			verifrt.Cover("configured")
			verifrt.Assert(dials == 1, "migrate-dials-once")
			verifrt.Assert(dialled == n.m.dclist[int(d-'0')], "migrate-dials-the-configured-address")
			verifrt.Assert(res.done == 0, "migrate-caller-still-waiting-for-the-repeated-request")
			if second == nil {
				return
			}
			n.t = second
			again := n.nextRequest(nil)
			verifrt.Assert(verifrt.SameBytes(again.body, req.body), "migrate-repeats-the-same-request")
			if hinted {
				tok := verifrt.I64()
				n.deliver(rpcResult(again.msgID, vectorOfLongs([]int64{tok, 7})), 1)
				verifrt.Quiesce()
				verifrt.Assert(res.done == 1, "migrate-hinted-caller-returns")
				if res.done == 1 {
					v, ok := res.val.([]int64)
					verifrt.Assert(res.err == nil && ok && len(v) == 2 && v[0] == tok && v[1] == 7, "migrate-hinted-caller-gets-its-typed-vector")
				}
				n.probe("after-migration-")
				return
			}
			n.deliver(rpcResult(again.msgID, mustMarshal(&objects.Pong{MsgID: again.msgID, PingID: 1000})), 1)
			verifrt.Quiesce()
			verifrt.Assert(res.done == 1, "migrate-caller-returns")
			if res.done == 1 {
				p, ok := res.val.(*objects.Pong)
				verifrt.Assert(res.err == nil && ok && p.PingID == 1000, "migrate-caller-gets-the-answer-from-the-new-data-centre")
			}
			n.probe("after-migration-")
		} else {
			verifrt.Cover("unconfigured")
			verifrt.Assert(dials == 0, "unconfigured-nothing-dialled")
			verifrt.Assert(res.done == 1 && res.err != nil && res.val == nil, "unconfigured-data-centre-is-an-error")
			verifrt.Assert(n.m.addr == "10.0.0.1:443", "unconfigured-address-unchanged")
			n.probe("after-refused-migration-")
		}
	})
	if crashed {
		verifrt.Note("crash: " + verifrt.PanicMsg())
	}
	verifrt.Assert(!crashed, "process-survives")
}

// H_C17_migrate_other_client: two clients live in one process.  Client A configures its own data-centre table
// through the public SetDCList (data centre 7 at a private address, data centre 2 moved).  Client B, which was
// given no table of its own, is told PHONE_MIGRATE_d: it must act on *its* configuration - an error for d = 7
// (never configured for B), the library's default address for d = 2 - and never dial an address that only A
// was given.
func H_C17_migrate_other_client() {
	verifrt.SetClock(1600000000, 0, 1000)
	def2 := defaultDCList()[2]
	a := newNetEnv(3)
	a.m.SetDCList(map[int]string{7: "10.7.7.7:443", 2: "10.2.2.2:443"})
	n := newNetEnv(11) // client B
	dials := 0
	dialled := ""
	var second *fakeTransport
	verifrt.Hook("github.com/xelaj/mtproto/internal/transport.NewTransport", func(m messages.MessageInformator, conn transport.ConnConfig, v mode.Variant) (transport.Transport, error) {
		dials++
		if c, ok := conn.(transport.TCPConnConfig); ok {
			dialled = c.Host
		}
		second = &fakeTransport{m: n.m, out: make(chan sentMsg, 256), in: make(chan srvMsg, 64)}
		return second, nil
	})
	if !verifrt.Symbolic() {
		verifrt.Assert(true, "engine-only-scenario")
		return
	}
	crashed := verifrt.Catch(func() {
		n.start()
		var res c17Outcome
		go func() {
			v, err := n.m.MakeRequest(&objects.PingParams{PingID: 1000})
			res.val, res.err = v, err
			res.done++
		}()
		req := n.nextRequest(nil)
		d := verifrt.ByteIn("27")
		n.deliver(rpcResult(req.msgID, mustMarshal(&objects.RpcError{ErrorCode: 303, ErrorMessage: "PHONE_MIGRATE_" + string([]byte{d})})), 1)
		verifrt.Quiesce()
		if d == '7' {
			verifrt.Assert(dials == 0, "other-clients-data-centre-is-not-dialled")
			verifrt.Assert(res.done == 1 && res.err != nil && res.val == nil, "data-centre-configured-only-for-another-client-is-an-error")
		} else {
			verifrt.Assert(dials == 1 && dialled == def2, "migrate-dials-this-clients-own-address")
		}
	})
	if crashed {
		verifrt.Note("crash: " + verifrt.PanicMsg())
	}
	verifrt.Assert(!crashed, "process-survives")
}
