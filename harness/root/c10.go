//go:build verif

package mtproto

import (
	"github.com/xelaj/mtproto/internal/mtproto/objects"
	"github.com/xelaj/mtproto/internal/verifrt"
)

// H_C10_seqno: one step from an arbitrary even seq_no: a content-related request goes out with seq_no|1, a
// pure acknowledgement with an even seq_no, the counter advances by 2 per encrypted send and stays even.
func H_C10_seqno() {
	verifrt.SetClock(1600000000, 0, 1000)
	n := newNetEnv(5)
	s0 := verifrt.I32()
	verifrt.Assume(s0&1 == 0)
	verifrt.Assume(s0 >= 0 && s0 < 0x7ffffff0)
	n.m.seqNo = s0
	n.startReader()
	go func() { _, _ = n.m.MakeRequest(&objects.PingParams{PingID: 1}) }()
	req := n.nextRequest(nil)
	verifrt.Assert(req.seqNo == s0|1, "content-related-seq-no-odd")
	verifrt.Assert(req.msgID&3 == 0, "client-msg-id-multiple-of-4")
	verifrt.Quiesce()
	verifrt.Assert(n.m.seqNo == s0+2, "seq-no-advances-by-2")
	go func() { _, _ = n.m.MakeRequest(&objects.MsgsAck{MsgIDs: []int64{req.msgID}}) }()
	verifrt.Quiesce()
	sent := n.drain()
	verifrt.Assert(len(sent) == 1, "ack-written")
	if len(sent) == 1 {
		verifrt.Assert(sent[0].seqNo&1 == 0, "pure-ack-seq-no-even")
		verifrt.Assert(sent[0].seqNo >= req.seqNo-1, "seq-no-never-decreases")
		verifrt.Assert(sent[0].msgID > req.msgID, "msg-id-increases")
	}
	verifrt.Assert(n.m.seqNo&1 == 0, "seq-no-counter-stays-even")
}

// H_C10_order: k goroutines send concurrently; along the order in which the transport wrote the messages,
// msg_ids strictly increase and seq_no never decreases - for every interleaving of the clock readings and the
// locked writes, with a clock that advances stepNs per reading (0: equal readings).
func H_C10_order(k, stepNs int) {
	verifrt.SetClock(1600000000, 500, int64(stepNs))
	verifrt.ClockYields(true)
	n := newNetEnv(5)
	n.startReader()
	for i := 0; i < k; i++ {
		go func(i int) { _, _ = n.m.MakeRequest(&objects.PingParams{PingID: int64(i)}) }(i)
	}
	for i := 0; i < k; i++ {
		n.nextRequest(nil)
	}
	log := n.t.log
	verifrt.Assert(len(log) == k, "all-written")
	for i := 1; i < len(log); i++ {
		verifrt.Assert(log[i].msgID > log[i-1].msgID, "msg-ids-strictly-increase-in-write-order")
		verifrt.Assert(log[i].seqNo >= log[i-1].seqNo, "seq-no-never-decreases-in-write-order")
	}
	for i := range log {
		verifrt.Assert(log[i].seqNo&1 == 1, "content-related-seq-no-odd")
		verifrt.Assert(log[i].msgID&3 == 0, "client-msg-id-multiple-of-4")
	}
}

// H_C10_acks: every content-related server message (odd seq_no), alone or inside a container, is answered by a
// msgs_ack naming exactly its msg_id; service messages (even seq_no) are not acknowledged.
func H_C10_acks(pack int) {
	verifrt.SetClock(1600000000, 0, 1000)
	n := newNetEnv(5)
	n.startReader()
	odd1, odd2 := verifrt.Bool(), verifrt.Bool()
	seq := func(odd bool, base int32) int32 {
		if odd {
			return base | 1
		}
		return base &^ 1
	}
	pong := func(x int64) []byte { return mustMarshal(&objects.Pong{MsgID: 4, PingID: x}) }
	var want []int64
	if pack == 0 {
		id1 := n.deliver(pong(1), seq(odd1, 10))
		id2 := n.deliver(pong(2), seq(odd2, 12))
		if odd1 {
			want = append(want, id1)
		}
		if odd2 {
			want = append(want, id2)
		}
	} else {
		ids := []int64{nextSrvID(), nextSrvID()}
		seqs := []int32{seq(odd1, 10), seq(odd2, 12)}
		n.deliver(container(ids, seqs, [][]byte{pong(1), pong(2)}), 14) // the container itself: even seq_no
		if odd1 {
			want = append(want, ids[0])
		}
		if odd2 {
			want = append(want, ids[1])
		}
	}
	verifrt.Quiesce()
	verifrt.Assert(n.loopErr == nil, "receive-loop-alive")
	sent := n.drain()
	var acked []int64
	for _, s := range sent {
		o, err := decodeAck(s.body)
		verifrt.Assert(err == nil, "only-acks-are-written")
		if err == nil {
			acked = append(acked, o...)
			verifrt.Assert(s.seqNo&1 == 0, "pure-ack-seq-no-even")
		}
	}
	verifrt.Assert(len(acked) == len(want), "one-ack-per-content-related-message")
	if len(acked) == len(want) {
		for i := range want {
			verifrt.Assert(acked[i] == want[i], "ack-names-the-message-id")
		}
	}
}

func decodeAck(body []byte) ([]int64, error) {
	var a objects.MsgsAck
	if err := decodeInto(body, &a); err != nil {
		return nil, err
	}
	return a.MsgIDs, nil
}
