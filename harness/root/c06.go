//go:build verif

package mtproto

// Key-exchange harnesses (C06 conformant server, C07 lying server, C19 provenance of the secrets).
// The client runs the real makeAuthKey over the fake transport (unencrypted service-mode messages); the
// harness is the server, written from core.telegram.org/mtproto/auth_key.

import (
	"io"

	"crypto/aes"
	"crypto/rsa"
	"crypto/sha1"
	"math/big"
	"math/rand"

	"github.com/xelaj/mtproto/internal/encoding/tl"
	"github.com/xelaj/mtproto/internal/mtproto/messages"
	"github.com/xelaj/mtproto/internal/mtproto/objects"
	"github.com/xelaj/mtproto/internal/verifrt"
)

func hSha1(b []byte) []byte { h := sha1.Sum(b); return h[:] }

func hCat(parts ...[]byte) []byte {
	out := []byte{}
	for _, p := range parts {
		out = append(out, p...)
	}
	return out
}

func hIGEEncrypt(key, iv, p []byte) []byte {
	blk, _ := aes.NewCipher(key)
	cPrev := append([]byte{}, iv[:16]...)
	pPrev := append([]byte{}, iv[16:]...)
	out := make([]byte, 0, len(p))
	for i := 0; i+16 <= len(p); i += 16 {
		x := make([]byte, 16)
		for j := 0; j < 16; j++ {
			x[j] = p[i+j] ^ cPrev[j]
		}
		y := make([]byte, 16)
		blk.Encrypt(y, x)
		for j := 0; j < 16; j++ {
			y[j] ^= pPrev[j]
		}
		out = append(out, y...)
		cPrev = y
		pPrev = p[i : i+16]
	}
	return out
}

func hIGEDecrypt(key, iv, c []byte) []byte {
	blk, _ := aes.NewCipher(key)
	cPrev := append([]byte{}, iv[:16]...)
	pPrev := append([]byte{}, iv[16:]...)
	out := make([]byte, 0, len(c))
	for i := 0; i+16 <= len(c); i += 16 {
		x := make([]byte, 16)
		for j := 0; j < 16; j++ {
			x[j] = c[i+j] ^ pPrev[j]
		}
		y := make([]byte, 16)
		blk.Decrypt(y, x)
		for j := 0; j < 16; j++ {
			y[j] ^= cPrev[j]
		}
		out = append(out, y...)
		pPrev = y
		cPrev = c[i : i+16]
	}
	return out
}

// temp keys from the fixed-width encodings of new_nonce (32 bytes) and server_nonce (16 bytes)
func hTempKeys(newNonce, serverNonce []byte) (key, iv []byte) {
	h1 := hSha1(hCat(newNonce, serverNonce))
	h2 := hSha1(hCat(serverNonce, newNonce))
	h3 := hSha1(hCat(newNonce, newNonce))
	return hCat(h1, h2[0:12]), hCat(h2[12:20], h3, newNonce[0:4])
}

// lzBytes: n bytes with exactly k leading zero bytes (k < n): the zeros are constants, so every value derived
// from them stays syntactically aligned between client and server
func lzBytes(n, k int) []byte {
	b := make([]byte, n)
	rest := verifrt.Bytes(n - k)
	verifrt.Assume(rest[0] != 0)
	copy(b[k:], rest)
	return b
}

func fixed(x *big.Int, n int) []byte { return x.FillBytes(make([]byte, n)) }

type hsEnv struct {
	*netEnv
	nonce, newNonce []byte // the client's random draws (supplied through hooks)
	N               []byte // RSA modulus
	e               int
	key             []byte // the server's auth key
	bSecret         []byte // the client's DH exponent (supplied through a hook)
}

// newHandshakeEnv: a client without a session; RandomInt128/256 and SplitPQ are hooked so that the server knows
// the client's nonces and the factorisation is the contract p*q = pq, p < q (SplitPQ's Pollard-rho loop is outside).
func newHandshakeEnv(p, q uint32, nonceLZ, newNonceLZ int) *hsEnv {
	n := newNetEnv(0)
	n.m.encrypted = false
	n.m.authKey, n.m.authKeyHash = nil, nil
	h := &hsEnv{netEnv: n, e: 65537}
	h.N = verifrt.Bytes(256)
	verifrt.Assume(h.N[0] >= 0x80)
	n.m.publicKey = &rsa.PublicKey{N: new(big.Int).SetBytes(h.N), E: h.e}
	h.nonce = lzBytes(16, nonceLZ)
	h.newNonce = lzBytes(32, newNonceLZ)
	verifrt.Hook("github.com/xelaj/mtproto/internal/encoding/tl.RandomInt128", func() *tl.Int128 {
		return &tl.Int128{Int: new(big.Int).SetBytes(h.nonce)}
	})
	verifrt.Hook("github.com/xelaj/mtproto/internal/encoding/tl.RandomInt256", func() *tl.Int256 {
		return &tl.Int256{Int: new(big.Int).SetBytes(h.newNonce)}
	})
	h.bSecret = verifrt.Bytes(256)
	verifrt.Hook("(*math/big.Int).Rand", func(z *big.Int, rnd *rand.Rand, n *big.Int) *big.Int {
		return z.SetBytes(h.bSecret) // the DH exponent: any value below 2^2048 (C19 checks where it comes from)
	})
	verifrt.Hook("crypto/rand.Int", func(r io.Reader, max *big.Int) (*big.Int, error) {
		return new(big.Int).SetBytes(h.bSecret), nil
	})
	verifrt.Hook("github.com/xelaj/mtproto/internal/math.SplitPQ", func(pq *big.Int) (*big.Int, *big.Int) {
		return big.NewInt(int64(p)), big.NewInt(int64(q))
	})
	return h
}

// serverSend delivers an unencrypted service message
func (h *hsEnv) serverSend(o tl.Object) {
	h.t.in <- srvMsg{msg: &messages.Unencrypted{Msg: mustMarshal(o), MsgID: nextSrvID()}}
}

func (h *hsEnv) serverRecv() tl.Object {
	s := <-h.t.out
	o, err := tl.DecodeUnknownObject(s.body)
	if err != nil {
		panic("server cannot decode the client's request")
	}
	return o
}

func i128(b []byte) *tl.Int128 { return &tl.Int128{Int: new(big.Int).SetBytes(b)} }

// H_C06_handshake: a conformant server.  zeros selects which server-side values start with a zero byte
// (bit 0 server_nonce, bit 1 g_a, bit 2 dh_prime-independent answer padding variant).
func H_C06_handshake(padSel, nonceLZ, newNonceLZ, serverNonceLZ int) {
	handshakeScript(padSel, nonceLZ, newNonceLZ, serverNonceLZ, 0)
}

// other16/other32: a value different from b (every such value: the difference is symbolic)
func otherThan(b []byte) []byte {
	o := verifrt.Bytes(len(b))
	verifrt.Assume(!verifrt.SameBytes(o, b))
	return o
}

const (
	lieNone = iota
	lieResPQNonce
	lieNoFingerprint
	lieDHNonce
	lieDHServerNonce
	lieDHFail
	lieAnswerHash
	lieAnswerGarbage
	lieAnswerShort
	lieInnerNonce
	lieInnerServerNonce
	lieInnerWrongType
	lieGenNonce
	lieGenServerNonce
	lieGenHash
	lieGenRetry
	lieGenFail
	nLies
)

// H_C07_lying_server: exactly one inconsistency is injected into an otherwise conformant exchange (every wrong
// value of the field, symbolic).  The exchange must be abandoned with an error: no panic, nothing stored, the
// client stays unencrypted and never writes an encrypted message.
func H_C07_lying_server(lie int) {
	handshakeScript(0, 0, 0, 0, lie)
}

func handshakeScript(padSel, nonceLZ, newNonceLZ, serverNonceLZ, lie int) {
	verifrt.SetClock(1600000000, 0, 1000)
	verifrt.SwitchBudget(0) // one client goroutine: scheduling is not the subject here
	verifrt.AssumeCollisionFree() // the padding-trimming loop compares SHA-1 digests at up to 16 cut points
	const P, Q = 1229739323, 1402015859
	h := newHandshakeEnv(P, Q, nonceLZ, newNonceLZ)
	m := h.m
	serverNonce := lzBytes(16, serverNonceLZ)
	dhPrime := verifrt.Bytes(256)
	verifrt.Assume(dhPrime[0] >= 0x80)
	aSecret := verifrt.Bytes(256)
	g := int32(3)
	pq := new(big.Int).Mul(big.NewInt(P), big.NewInt(Q))

	var hsErr error
	hsDone := false
	crashed := verifrt.Catch(func() {
		h.start()
		go func() {
			hsErr = m.makeAuthKey()
			hsDone = true
		}()
		// ---- step 1
		r1, ok := h.serverRecv().(*objects.ReqPQParams)
		verifrt.Assert(ok, "first-request-is-req_pq")
		if !ok {
			return
		}
		verifrt.Assert(verifrt.SameBytes(fixed(r1.Nonce.Int, 16), h.nonce), "req_pq-carries-the-nonce")
		fp := hSha1(hCat(refTLBytes(h.N), refTLBytes([]byte{1, 0, 1})))[12:20]
		fpInt := int64(uint64(fp[0]) | uint64(fp[1])<<8 | uint64(fp[2])<<16 | uint64(fp[3])<<24 | uint64(fp[4])<<32 | uint64(fp[5])<<40 | uint64(fp[6])<<48 | uint64(fp[7])<<56)
		{
			n1 := h.nonce
			fps := []int64{verifrt.I64(), fpInt}
			if lie == lieResPQNonce {
				n1 = otherThan(h.nonce)
			}
			if lie == lieNoFingerprint {
				verifrt.Assume(fps[0] != fpInt)
				fps = []int64{fps[0]}
				if verifrt.Bool() {
					fps = nil
				}
			}
			h.serverSend(&objects.ResPQ{Nonce: i128(n1), ServerNonce: i128(serverNonce), Pq: pq.Bytes(), Fingerprints: fps})
			if lie == lieResPQNonce || lie == lieNoFingerprint {
				verifrt.Quiesce()
				return
			}
		}
		// ---- step 2
		r2, ok := h.serverRecv().(*objects.ReqDHParamsParams)
		verifrt.Assert(ok, "second-request-is-req_DH_params")
		if !ok {
			return
		}
		verifrt.Assert(verifrt.SameBytes(fixed(r2.Nonce.Int, 16), h.nonce), "req_DH_params-nonce")
		verifrt.Assert(verifrt.SameBytes(fixed(r2.ServerNonce.Int, 16), serverNonce), "req_DH_params-server-nonce")
		verifrt.Assert(r2.PublicKeyFingerprint == fpInt, "req_DH_params-fingerprint")
		verifrt.Assert(verifrt.SameBytes(r2.P, big.NewInt(P).Bytes()) && verifrt.SameBytes(r2.Q, big.NewInt(Q).Bytes()), "req_DH_params-p-q")
		// the RSA block must be RSA(SHA1(data) ‖ data ‖ padding) as a 256-byte big-endian number
		inner := mustMarshal(&objects.PQInnerData{Pq: pq.Bytes(), P: big.NewInt(P).Bytes(), Q: big.NewInt(Q).Bytes(),
			Nonce: i128(h.nonce), ServerNonce: i128(serverNonce), NewNonce: &tl.Int256{Int: new(big.Int).SetBytes(h.newNonce)}})
		block := make([]byte, 255)
		copy(block, hCat(hSha1(inner), inner))
		c := new(big.Int).Exp(new(big.Int).SetBytes(block), big.NewInt(int64(h.e)), new(big.Int).SetBytes(h.N))
		verifrt.Assert(len(r2.EncryptedData) == 256, "rsa-block-is-256-bytes")
		verifrt.Assert(verifrt.SameBytes(r2.EncryptedData, fixed(c, 256)), "rsa-block-decrypts-at-the-right-offset")
		// server_DH_inner_data sealed with the temp keys
		p := new(big.Int).SetBytes(dhPrime)
		ga := new(big.Int).Exp(big.NewInt(int64(g)), new(big.Int).SetBytes(aSecret), p)
		answer := mustMarshal(&objects.ServerDHInnerData{Nonce: i128(h.nonce), ServerNonce: i128(serverNonce), G: g, DhPrime: dhPrime, GA: fixed(ga, 256), ServerTime: verifrt.I32()})
		withHash := hCat(hSha1(answer), answer)
		pad := verifrt.Bytes((16 - len(withHash)%16) % 16)
		if padSel == 1 { // a server may also add a whole extra... no: 0..15 bytes only; variant 1 uses zero padding
			for i := range pad {
				pad[i] = 0
			}
		}
		tk, tiv := hTempKeys(h.newNonce, serverNonce)
		{
			n2, sn2 := h.nonce, serverNonce
			plain := hCat(withHash, pad)
			switch lie {
			case lieDHNonce:
				n2 = otherThan(h.nonce)
			case lieDHServerNonce:
				sn2 = otherThan(serverNonce)
			case lieAnswerHash:
				// a prefix that matches no way of splitting content and padding
				wrong := verifrt.Bytes(20)
				for j := 0; j < 16 && 20+j <= len(plain); j++ {
					verifrt.Assume(!verifrt.SameBytes(wrong, hSha1(plain[20:len(plain)-j])))
				}
				copy(plain[0:20], wrong)
			case lieInnerNonce:
				answer = mustMarshal(&objects.ServerDHInnerData{Nonce: i128(otherThan(h.nonce)), ServerNonce: i128(serverNonce), G: g, DhPrime: dhPrime, GA: fixed(ga, 256), ServerTime: 1})
				plain = hCat(hSha1(answer), answer, pad)
			case lieInnerServerNonce:
				answer = mustMarshal(&objects.ServerDHInnerData{Nonce: i128(h.nonce), ServerNonce: i128(otherThan(serverNonce)), G: g, DhPrime: dhPrime, GA: fixed(ga, 256), ServerTime: 1})
				plain = hCat(hSha1(answer), answer, pad)
			case lieInnerWrongType:
				answer = mustMarshal(&objects.Pong{MsgID: verifrt.I64(), PingID: verifrt.I64()})
				plain = hCat(hSha1(answer), answer, make([]byte, (16-(20+len(answer))%16)%16))
			}
			enc := hIGEEncrypt(tk, tiv, plain)
			if lie == lieAnswerGarbage {
				enc = verifrt.Bytes(16 * (1 + verifrt.Len(2)))
			}
			if lie == lieAnswerShort {
				enc = verifrt.Bytes(verifrt.Len(40))
			}
			if lie == lieDHFail {
				h.serverSend(&objects.ServerDHParamsFail{Nonce: i128(h.nonce), ServerNonce: i128(serverNonce), NewNonceHash: i128(verifrt.Bytes(16))})
			} else {
				h.serverSend(&objects.ServerDHParamsOk{Nonce: i128(n2), ServerNonce: i128(sn2), EncryptedAnswer: enc})
			}
			if lie >= lieDHNonce && lie <= lieInnerWrongType {
				verifrt.Quiesce()
				return
			}
		}
		// ---- step 3
		r3, ok := h.serverRecv().(*objects.SetClientDHParamsParams)
		verifrt.Assert(ok, "third-request-is-set_client_DH_params")
		if !ok {
			return
		}
		verifrt.Assert(len(r3.EncryptedData)%16 == 0 && len(r3.EncryptedData) >= 32, "client-inner-data-length")
		if len(r3.EncryptedData)%16 != 0 || len(r3.EncryptedData) < 32 {
			return
		}
		dec := hIGEDecrypt(tk, tiv, r3.EncryptedData)
		// SHA1 prefix + client_DH_inner_data + 0..15 padding: find g_b by decoding the TL object after the hash
		co, err := tl.DecodeUnknownObject(dec[20:])
		cdi, ok := co.(*objects.ClientDHInnerData)
		verifrt.Assert(err == nil && ok, "client-inner-data-decodes")
		if err != nil || !ok {
			return
		}
		body := mustMarshal(cdi)
		verifrt.Assert(len(dec)-20-len(body) < 16, "client-inner-data-padding-0-to-15")
		verifrt.Assert(verifrt.SameBytes(dec[0:20], hSha1(body)), "client-inner-data-sha1-prefix")
		verifrt.Assert(verifrt.SameBytes(fixed(cdi.Nonce.Int, 16), h.nonce) && verifrt.SameBytes(fixed(cdi.ServerNonce.Int, 16), serverNonce), "client-inner-data-nonces")
		gb := new(big.Int).SetBytes(cdi.GB)
		// the server's key; Diffie-Hellman commutativity (g^b)^a = (g^a)^b is the trusted mathematical fact
		kSrv := new(big.Int).Exp(gb, new(big.Int).SetBytes(aSecret), p)
		kCli := new(big.Int).Exp(ga, new(big.Int).SetBytes(h.bSecret), p)
		verifrt.Assume(kSrv.Cmp(kCli) == 0) // (g^b)^a = (g^a)^b
		key := fixed(kSrv, 256)
		h.key = key
		hash1 := hSha1(hCat(h.newNonce, []byte{1}, hSha1(key)[0:8]))[4:20]
		switch lie {
		case lieGenNonce:
			h.serverSend(&objects.DHGenOk{Nonce: i128(otherThan(h.nonce)), ServerNonce: i128(serverNonce), NewNonceHash1: i128(hash1)})
		case lieGenServerNonce:
			h.serverSend(&objects.DHGenOk{Nonce: i128(h.nonce), ServerNonce: i128(otherThan(serverNonce)), NewNonceHash1: i128(hash1)})
		case lieGenHash:
			h.serverSend(&objects.DHGenOk{Nonce: i128(h.nonce), ServerNonce: i128(serverNonce), NewNonceHash1: i128(otherThan(hash1))})
		case lieGenRetry:
			h.serverSend(&objects.DHGenRetry{Nonce: i128(h.nonce), ServerNonce: i128(serverNonce), NewNonceHash2: i128(verifrt.Bytes(16))})
		case lieGenFail:
			h.serverSend(&objects.DHGenFail{Nonce: i128(h.nonce), ServerNonce: i128(serverNonce), NewNonceHash3: i128(verifrt.Bytes(16))})
		default:
			h.serverSend(&objects.DHGenOk{Nonce: i128(h.nonce), ServerNonce: i128(serverNonce), NewNonceHash1: i128(hash1)})
		}
		verifrt.Quiesce()
	})
	if crashed {
		verifrt.Note("crash: " + verifrt.PanicMsg())
	}
	if lie != lieNone {
		verifrt.Assert(!crashed, "inconsistent-reply-does-not-panic")
		if crashed {
			return
		}
		verifrt.Assert(hsDone, "key-exchange-returns")
		if hsDone {
			if hsErr != nil {
				verifrt.Note("abandoned with: " + verifrt.ErrText(hsErr))
			}
			verifrt.Assert(hsErr != nil, "inconsistent-reply-is-an-error")
		}
		verifrt.Assert(len(h.store.stored) == 0, "nothing-stored")
		verifrt.Assert(!m.encrypted, "client-stays-unencrypted")
		for _, s := range h.t.log {
			verifrt.Assert(!s.enc, "no-encrypted-message-written")
		}
		return
	}
	verifrt.Assert(!crashed, "process-survives")
	if crashed {
		return
	}
	verifrt.Assert(hsDone, "key-exchange-completes")
	if !hsDone {
		return
	}
	if hsErr != nil {
		verifrt.Note("handshake error: " + verifrt.ErrText(hsErr))
	}
	verifrt.Assert(hsErr == nil, "key-exchange-succeeds")
	if hsErr != nil || h.key == nil {
		return
	}
	verifrt.Assert(len(m.authKey) == 256, "auth-key-is-256-bytes")
	verifrt.Assert(verifrt.SameBytes(m.authKey, h.key), "same-auth-key-on-both-sides")
	verifrt.Assert(verifrt.SameBytes(m.authKeyHash, hSha1(h.key)[12:20]), "same-key-id")
	salt := make([]byte, 8)
	for i := range salt {
		salt[i] = h.newNonce[i] ^ serverNonce[i]
	}
	verifrt.Assert(uint64(m.serverSalt) == uint64(salt[0])|uint64(salt[1])<<8|uint64(salt[2])<<16|uint64(salt[3])<<24|uint64(salt[4])<<32|uint64(salt[5])<<40|uint64(salt[6])<<48|uint64(salt[7])<<56, "same-initial-salt")
	verifrt.Assert(m.encrypted && !m.serviceModeActivated, "client-switched-to-encrypted-mode")
	verifrt.Assert(len(h.store.stored) == 1, "session-stored-once")
	if len(h.store.stored) == 1 {
		s := h.store.stored[0]
		verifrt.Assert(verifrt.SameBytes(s.Key, h.key) && s.Salt == m.serverSalt, "stored-session-is-the-negotiated-one")
	}
}

// TL byte string (reference)
func refTLBytes(b []byte) []byte {
	var out []byte
	if len(b) < 254 {
		out = append(out, byte(len(b)))
	} else {
		out = append(out, 0xfe, byte(len(b)), byte(len(b)>>8), byte(len(b)>>16))
	}
	out = append(out, b...)
	for len(out)%4 != 0 {
		out = append(out, 0)
	}
	return out
}
