//go:build verif

package mtproto

import (
	"crypto/rsa"
	"math/big"

	"github.com/xelaj/mtproto/internal/encoding/tl"
	mtmath "github.com/xelaj/mtproto/internal/math"
	"github.com/xelaj/mtproto/internal/mtproto/objects"
	"github.com/xelaj/mtproto/internal/verifrt"
)

func onlyCrypto(tag string, b []byte, allowInput bool) {
	src := verifrt.Sources(b)
	verifrt.Note(tag + " depends on: [" + src + "]")
	ok := src == "crypto" || (allowInput && (src == "crypto,input"))
	verifrt.Assert(ok, tag+"-drawn-from-the-OS-random-source-only")
	verifrt.Assert(verifrt.NonConstant(b), tag+"-is-not-a-constant")
}

// H_C19_nonces: the key exchange is run with the environment's random sources tagged (crypto/rand vs
// math/rand vs a time-seeded generator vs the clock).  The nonce in req_pq and the RSA block carrying new_nonce
// must depend on the OS random source only.
func H_C19_nonces() {
	verifrt.SetClock(1600000000, 0, 1000)
	verifrt.SwitchBudget(0)
	n := newNetEnv(0)
	n.m.encrypted = false
	n.m.authKey, n.m.authKeyHash = nil, nil
	N := verifrt.Bytes(256)
	verifrt.Assume(N[0] >= 0x80)
	n.m.publicKey = &rsa.PublicKey{N: new(big.Int).SetBytes(N), E: 65537}
	verifrt.Hook("github.com/xelaj/mtproto/internal/math.SplitPQ", func(pq *big.Int) (*big.Int, *big.Int) {
		return big.NewInt(1229739323), big.NewInt(1402015859)
	})
	h := &hsEnv{netEnv: n, N: N, e: 65537}
	crashed := verifrt.Catch(func() {
		n.start()
		go func() { _ = n.m.makeAuthKey() }()
		r1, ok := h.serverRecv().(*objects.ReqPQParams)
		verifrt.Assert(ok, "first-request-is-req_pq")
		if !ok {
			return
		}
		nonce := fixed(r1.Nonce.Int, 16)
		onlyCrypto("nonce", nonce, false)
		fp := hSha1(hCat(refTLBytes(N), refTLBytes([]byte{1, 0, 1})))[12:20]
		fpInt := int64(uint64(fp[0]) | uint64(fp[1])<<8 | uint64(fp[2])<<16 | uint64(fp[3])<<24 | uint64(fp[4])<<32 | uint64(fp[5])<<40 | uint64(fp[6])<<48 | uint64(fp[7])<<56)
		pq := new(big.Int).Mul(big.NewInt(1229739323), big.NewInt(1402015859))
		serverNonce := verifrt.Bytes(16)
		h.serverSend(&objects.ResPQ{Nonce: r1.Nonce, ServerNonce: &tl.Int128{Int: new(big.Int).SetBytes(serverNonce)}, Pq: pq.Bytes(), Fingerprints: []int64{fpInt}})
		r2, ok := h.serverRecv().(*objects.ReqDHParamsParams)
		verifrt.Assert(ok, "second-request-is-req_DH_params")
		if !ok {
			return
		}
		// the RSA block is the only carrier of new_nonce; it also contains the (input-chosen) server nonce
		onlyCrypto("new_nonce (inside the RSA block)", r2.EncryptedData, true)
	})
	verifrt.Assert(!crashed, "process-survives")
}

// H_C19_exponent: with the nonces supplied by the harness (as in C06) the exchange reaches step 3; g_b and the
// auth key must depend on the OS random source only (besides harness inputs).
func H_C19_exponent() {
	verifrt.SetClock(1600000000, 0, 1000)
	verifrt.SwitchBudget(0)
	verifrt.AssumeCollisionFree()
	const P, Q = 1229739323, 1402015859
	h := newHandshakeEnv(P, Q, 0, 0)
	verifrt.Hook("(*math/big.Int).Rand", nil) // the exponent is NOT supplied here
	verifrt.Hook("crypto/rand.Int", nil)
	m := h.m
	serverNonce := lzBytes(16, 0)
	dhPrime := verifrt.Bytes(256)
	verifrt.Assume(dhPrime[0] >= 0x80)
	aSecret := verifrt.Bytes(256)
	crashed := verifrt.Catch(func() {
		h.start()
		go func() { _ = m.makeAuthKey() }()
		if _, ok := h.serverRecv().(*objects.ReqPQParams); !ok {
			verifrt.Assert(false, "first-request-is-req_pq")
			return
		}
		fp := hSha1(hCat(refTLBytes(h.N), refTLBytes([]byte{1, 0, 1})))[12:20]
		fpInt := int64(uint64(fp[0]) | uint64(fp[1])<<8 | uint64(fp[2])<<16 | uint64(fp[3])<<24 | uint64(fp[4])<<32 | uint64(fp[5])<<40 | uint64(fp[6])<<48 | uint64(fp[7])<<56)
		pq := new(big.Int).Mul(big.NewInt(P), big.NewInt(Q))
		h.serverSend(&objects.ResPQ{Nonce: i128(h.nonce), ServerNonce: i128(serverNonce), Pq: pq.Bytes(), Fingerprints: []int64{fpInt}})
		if _, ok := h.serverRecv().(*objects.ReqDHParamsParams); !ok {
			verifrt.Assert(false, "second-request-is-req_DH_params")
			return
		}
		p := new(big.Int).SetBytes(dhPrime)
		ga := new(big.Int).Exp(big.NewInt(3), new(big.Int).SetBytes(aSecret), p)
		answer := mustMarshal(&objects.ServerDHInnerData{Nonce: i128(h.nonce), ServerNonce: i128(serverNonce), G: 3, DhPrime: dhPrime, GA: fixed(ga, 256), ServerTime: 1})
		withHash := hCat(hSha1(answer), answer)
		pad := make([]byte, (16-len(withHash)%16)%16)
		tk, tiv := hTempKeys(h.newNonce, serverNonce)
		h.serverSend(&objects.ServerDHParamsOk{Nonce: i128(h.nonce), ServerNonce: i128(serverNonce), EncryptedAnswer: hIGEEncrypt(tk, tiv, hCat(withHash, pad))})
		r3, ok := h.serverRecv().(*objects.SetClientDHParamsParams)
		verifrt.Assert(ok, "third-request-is-set_client_DH_params")
		if !ok {
			return
		}
		dec := hIGEDecrypt(tk, tiv, r3.EncryptedData)
		co, err := tl.DecodeUnknownObject(dec[20:])
		cdi, ok := co.(*objects.ClientDHInnerData)
		verifrt.Assert(err == nil && ok, "client-inner-data-decodes")
		if err != nil || !ok {
			return
		}
		onlyCrypto("g_b (DH exponent)", cdi.GB, true)
		onlyCrypto("auth key", m.authKey, true)
	})
	verifrt.Assert(!crashed, "process-survives")
}

// H_C19_source_failure: the same secrets when the OS random source may fail (error, no bytes) at any draw: either
// the draw is refused (panic / error - no secret is produced) or the secret still depends on the OS source only;
// a fallback to another generator is a violation.  which 0: nonce, 1: new_nonce, 2: DH exponent (through g_b).
func H_C19_source_failure(which int) {
	verifrt.RandMayFail()
	var secret []byte
	pn := verifrt.Catch(func() {
		switch which {
		case 0:
			secret = fixed(tl.RandomInt128().Int, 16)
		case 1:
			secret = fixed(tl.RandomInt256().Int, 32)
		case 2:
			dhPrime := verifrt.Bytes(256)
			verifrt.Assume(dhPrime[0] >= 0x80)
			ga := verifrt.Bytes(256)
			_, gb, _ := mtmath.MakeGAB(3, new(big.Int).SetBytes(ga), new(big.Int).SetBytes(dhPrime))
			secret = fixed(gb, 256)
		}
	})
	if pn {
		verifrt.Cover("refused")
		verifrt.Assert(true, "failing-source-is-refused-or-not-used")
		return
	}
	verifrt.Cover("delivered")
	src := verifrt.Sources(secret)
	verifrt.Note("secret depends on: [" + src + "]")
	verifrt.Assert(src == "crypto" || src == "crypto,input", "failing-source-never-replaced-by-another-generator")
}
