//go:build verif

package mtproto

import (
	"crypto/rsa"
	"io"
	"math/big"

	"github.com/xelaj/mtproto/internal/encoding/tl"
	"github.com/xelaj/mtproto/internal/mtproto/objects"
	"github.com/xelaj/mtproto/internal/verifrt"
)

func seqBytes(n int, start byte) []byte {
	b := make([]byte, n)
	for i := range b {
		b[i] = start + byte(i)*7
	}
	return b
}

// keyedByExchange returns a client that got its key through the library's own makeAuthKey against a conformant
// server, in this process, with every drawn value concrete (the exchange itself is C06's subject; here it only
// has to leave behind whatever state a real exchange leaves: response-channel registrations of the three
// unencrypted requests, the service channel, seq_no, the stored session).
func keyedByExchange() *netEnv {
	const P, Q = 1229739323, 1402015859
	n := newNetEnv(0)
	n.m.encrypted = false
	n.m.authKey, n.m.authKeyHash = nil, nil
	N := seqBytes(256, 0x83)
	N[0] |= 0x80
	N[255] |= 1
	n.m.publicKey = &rsa.PublicKey{N: new(big.Int).SetBytes(N), E: 65537}
	nonce, newNonce, serverNonce := seqBytes(16, 0x11), seqBytes(32, 0x23), seqBytes(16, 0x35)
	verifrt.Hook("github.com/xelaj/mtproto/internal/encoding/tl.RandomInt128", func() *tl.Int128 {
		return &tl.Int128{Int: new(big.Int).SetBytes(nonce)}
	})
	verifrt.Hook("github.com/xelaj/mtproto/internal/encoding/tl.RandomInt256", func() *tl.Int256 {
		return &tl.Int256{Int: new(big.Int).SetBytes(newNonce)}
	})
	verifrt.Hook("crypto/rand.Int", func(r io.Reader, max *big.Int) (*big.Int, error) { return big.NewInt(0x1234567), nil })
	verifrt.Hook("crypto/rand.Read", func(b []byte) (int, error) { return len(b), nil })
	verifrt.Hook("github.com/xelaj/mtproto/internal/math.SplitPQ", func(pq *big.Int) (*big.Int, *big.Int) {
		return big.NewInt(P), big.NewInt(Q)
	})
	h := &hsEnv{netEnv: n, N: N, e: 65537}
	n.start()
	var hsErr error
	done := false
	go func() { hsErr = n.m.makeAuthKey(); done = true }()
	if _, ok := h.serverRecv().(*objects.ReqPQParams); !ok {
		return nil
	}
	fp := hSha1(hCat(refTLBytes(N), refTLBytes([]byte{1, 0, 1})))[12:20]
	fpInt := int64(uint64(fp[0]) | uint64(fp[1])<<8 | uint64(fp[2])<<16 | uint64(fp[3])<<24 | uint64(fp[4])<<32 | uint64(fp[5])<<40 | uint64(fp[6])<<48 | uint64(fp[7])<<56)
	pq := new(big.Int).Mul(big.NewInt(P), big.NewInt(Q))
	h.serverSend(&objects.ResPQ{Nonce: i128(nonce), ServerNonce: i128(serverNonce), Pq: pq.Bytes(), Fingerprints: []int64{fpInt}})
	if _, ok := h.serverRecv().(*objects.ReqDHParamsParams); !ok {
		return nil
	}
	dhPrime := seqBytes(256, 0xc5)
	dhPrime[0] |= 0x80
	dhPrime[255] |= 1
	p := new(big.Int).SetBytes(dhPrime)
	a := big.NewInt(0x7654321)
	ga := new(big.Int).Exp(big.NewInt(3), a, p)
	answer := mustMarshal(&objects.ServerDHInnerData{Nonce: i128(nonce), ServerNonce: i128(serverNonce), G: 3, DhPrime: dhPrime, GA: fixed(ga, 256), ServerTime: 1})
	withHash := hCat(hSha1(answer), answer)
	tk, tiv := hTempKeys(newNonce, serverNonce)
	h.serverSend(&objects.ServerDHParamsOk{Nonce: i128(nonce), ServerNonce: i128(serverNonce), EncryptedAnswer: hIGEEncrypt(tk, tiv, hCat(withHash, make([]byte, (16-len(withHash)%16)%16)))})
	if _, ok := h.serverRecv().(*objects.SetClientDHParamsParams); !ok {
		return nil
	}
	key := fixed(new(big.Int).Exp(new(big.Int).Exp(big.NewInt(3), big.NewInt(0x1234567), p), a, p), 256)
	hash1 := hSha1(hCat(newNonce, []byte{1}, hSha1(key)[0:8]))[4:20]
	h.serverSend(&objects.DHGenOk{Nonce: i128(nonce), ServerNonce: i128(serverNonce), NewNonceHash1: i128(hash1)})
	verifrt.Quiesce()
	if !done || hsErr != nil || !n.m.encrypted {
		if hsErr != nil {
			verifrt.Note("key exchange failed: " + verifrt.ErrText(hsErr))
		}
		return nil
	}
	// later draws are the environment's again
	verifrt.Hook("crypto/rand.Read", nil)
	verifrt.Hook("crypto/rand.Int", nil)
	return n
}

// H_C11_after_key_exchange_probe: the client keyed by an exchange in this process serves a request.
func H_C11_after_key_exchange_probe() {
	verifrt.SetClock(1600000000, 0, 1000)
	if !verifrt.Symbolic() {
		verifrt.Assert(true, "engine-only-scenario")
		return
	}
	crashed := verifrt.Catch(func() {
		n := keyedByExchange()
		verifrt.Assert(n != nil, "concrete-key-exchange-completes")
		if n == nil {
			return
		}
		n.probe("after-key-exchange-")
	})
	verifrt.Assert(!crashed, "process-survives")
}
