//go:build verif

package mtproto

// Scaffold for the request/response harnesses (C09, C10, C11, C16, C17b): a client built directly around a
// fake transport (no sockets, no crypto: the transport hands messages.Common values across), a recording
// session store, and a reader goroutine that plays the role of startReadingResponses' loop.

import (
	"bytes"
	"compress/gzip"
	"context"
	"io"
	"time"

	"github.com/xelaj/mtproto/internal/encoding/tl"
	"github.com/xelaj/mtproto/internal/mtproto/messages"
	"github.com/xelaj/mtproto/internal/mtproto/objects"
	"github.com/xelaj/mtproto/internal/session"
	"github.com/xelaj/mtproto/internal/utils"
	"github.com/xelaj/mtproto/internal/verifrt"
)

type sentMsg struct {
	msgID int64
	seqNo int32 // seq_no as it goes on the wire (ack bit included)
	salt  int64
	body  []byte
	enc   bool
}

type srvMsg struct {
	msg messages.Common
	err error
}

type fakeTransport struct {
	m      *MTProto
	out    chan sentMsg
	in     chan srvMsg
	log    []sentMsg
	closed bool
	readers int
}

func (t *fakeTransport) Close() error { t.closed = true; return nil }

func (t *fakeTransport) WriteMsg(msg messages.Common, requireToAck bool) error {
	verifrt.Yield("transport-write")
	s := sentMsg{msgID: int64(msg.GetMsgID()), body: msg.GetMsg(), salt: t.m.GetServerSalt()}
	if _, ok := msg.(*messages.Encrypted); ok {
		s.enc = true
		s.seqNo = t.m.GetSeqNo()
		if requireToAck {
			s.seqNo |= 1
		}
	}
	t.log = append(t.log, s)
	t.out <- s
	verifrt.Yield("transport-written")
	return nil
}

// ReadMsg: a connection's byte stream has one reader (the real mode/CancelableReader pair is not safe for two:
// they would tear each other's frames apart), so a second goroutine entering ReadMsg on the same connection
// while another is waiting in it is reported.
func (t *fakeTransport) ReadMsg() (messages.Common, error) {
	t.readers++
	verifrt.Assert(t.readers == 1, "one-reader-at-a-time-on-a-connection")
	m := <-t.in
	t.readers--
	return m.msg, m.err
}

type recStore struct {
	stored []*session.Session
	err    error
}

func (r *recStore) Load() (*session.Session, error) { return nil, nil }
func (r *recStore) Store(s *session.Session) error {
	c := *s
	r.stored = append(r.stored, &c)
	return r.err
}

type netEnv struct {
	m     *MTProto
	t     *fakeTransport
	store *recStore
	// reader loop state
	loopErr  error
	loopDone bool
	handled  int
}

func newNetEnv(salt int64) *netEnv {
	st := &recStore{}
	m := &MTProto{
		addr:                  "10.0.0.1:443",
		encrypted:             true,
		authKey:               make([]byte, 256),
		authKeyHash:           make([]byte, 8),
		serverSalt:            salt,
		sessionId:             77,
		serviceChannel:        make(chan tl.Object),
		responseChannels:      utils.NewSyncIntObjectChan(),
		expectedTypes:         utils.NewSyncIntReflectTypes(),
		serverRequestHandlers: make([]customHandlerFunc, 0),
		dclist:                defaultDCList(),
		tokensStorage:         st,
	}
	ft := &fakeTransport{m: m, out: make(chan sentMsg, 256), in: make(chan srvMsg, 64)}
	m.transport = ft
	return &netEnv{m: m, t: ft, store: st}
}

// start runs the library's own receive loop (startReadingResponses) over the fake transport.  An error the
// loop cannot handle makes it panic in its goroutine, i.e. the process dies (seen by the engine as a crash of
// the scenario; natively the test process dies).
func (n *netEnv) start() {
	ctx, cancel := context.WithCancel(context.Background())
	n.m.stopRoutines = cancel
	n.m.startReadingResponses(ctx)
}

func (n *netEnv) stop() { n.m.stopRoutines(); n.t.in <- srvMsg{err: context.Canceled} }

// startReader runs the receive loop exactly as startReadingResponses does, minus reconnection: any error other
// than cancellation ends the loop (in the real loop: check(err) panics, i.e. the process dies).
func (n *netEnv) startReader() {
	go func() {
		for {
			err := n.m.readMsg()
			if err == nil {
				n.handled++
				continue
			}
			if err == context.Canceled || err == io.EOF {
				n.loopDone = true
				return
			}
			n.loopErr = err
			n.loopDone = true
			return
		}
	}()
}

func (n *netEnv) stopReader() { n.t.in <- srvMsg{err: context.Canceled} }

// server side helpers -----------------------------------------------------------------------------------

var srvMsgID int64 = 0x5f00000000000001

func nextSrvID() int64 { srvMsgID += 4; return srvMsgID }

// deliver hands one server message (TL body) to the client; content-related messages carry an odd seq_no.
func (n *netEnv) deliver(body []byte, seqNo int32) int64 {
	id := nextSrvID()
	n.t.in <- srvMsg{msg: &messages.Encrypted{Msg: body, MsgID: id, SeqNo: seqNo}}
	return id
}

func mustMarshal(o tl.Object) []byte {
	b, err := tl.Marshal(o)
	if err != nil {
		panic(err)
	}
	return b
}

func nle32(v uint32) []byte { return []byte{byte(v), byte(v >> 8), byte(v >> 16), byte(v >> 24)} }
func nle64(v uint64) []byte { return append(nle32(uint32(v)), nle32(uint32(v>>32))...) }

// rpcResult builds rpc_result#f35c6d01 req_msg_id:long result:Object with an already serialised result
func rpcResult(reqMsgID int64, result []byte) []byte {
	return append(append(nle32(objects.CrcRpcResult), nle64(uint64(reqMsgID))...), result...)
}

// tlBytes is the TL bytes/string encoding written out by hand
func tlBytes(b []byte) []byte {
	var out []byte
	if len(b) < 254 {
		out = append(out, byte(len(b)))
	} else {
		out = append(out, 0xfe, byte(len(b)), byte(len(b)>>8), byte(len(b)>>16))
	}
	out = append(out, b...)
	for len(out)%4 != 0 {
		out = append(out, 0)
	}
	return out
}

// gzipPacked wraps a serialized object as gzip_packed#3072cfa1 packed_data:bytes
func gzipPacked(inner []byte) []byte {
	var buf bytes.Buffer
	w := gzip.NewWriter(&buf)
	w.Write(inner)
	w.Close()
	return append(nle32(0x3072cfa1), tlBytes(buf.Bytes())...)
}

func vectorOfLongs(vals []int64) []byte {
	b := append(nle32(tl.CrcVector), nle32(uint32(len(vals)))...)
	for _, v := range vals {
		b = append(b, nle64(uint64(v))...)
	}
	return b
}

// container builds msg_container with the given (msg_id, seq_no, body) triples
func container(ids []int64, seqs []int32, bodies [][]byte) []byte {
	b := append(nle32(0x73f1f8dc), nle32(uint32(len(bodies)))...)
	for i := range bodies {
		b = append(b, nle64(uint64(ids[i]))...)
		b = append(b, nle32(uint32(seqs[i]))...)
		b = append(b, nle32(uint32(len(bodies[i])))...)
		b = append(b, bodies[i]...)
	}
	return b
}

// nextRequest waits for the next content message the client writes (acknowledgements are collected aside)
func (n *netEnv) nextRequest(acks *[]sentMsg) sentMsg {
	for {
		var s sentMsg
		if verifrt.Symbolic() {
			s = <-n.t.out
		} else {
			// natively a request that never comes must not hang the replay
			select {
			case s = <-n.t.out:
			case <-time.After(3 * time.Second):
				panic("deadlock: timeout waiting for the client to write a request")
			}
		}
		if len(s.body) >= 4 && s.body[0] == 0x59 && s.body[1] == 0xb4 && s.body[2] == 0xd6 && s.body[3] == 0x62 { // msgs_ack#62d6b459
			if acks != nil {
				*acks = append(*acks, s)
			}
			continue
		}
		return s
	}
}

// drain collects everything written so far without blocking
func (n *netEnv) drain() []sentMsg {
	var out []sentMsg
	for {
		select {
		case s := <-n.t.out:
			out = append(out, s)
		default:
			return out
		}
	}
}

func decodeInto(body []byte, o tl.Object) error { return tl.Decode(body, o) }
