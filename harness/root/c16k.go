//go:build verif

package mtproto

import (
	"io"
	"math/big"

	"github.com/xelaj/mtproto/internal/encoding/tl"
	"github.com/xelaj/mtproto/internal/mode"
	"github.com/xelaj/mtproto/internal/mtproto/messages"
	"github.com/xelaj/mtproto/internal/mtproto/objects"
	"github.com/xelaj/mtproto/internal/transport"
	"github.com/xelaj/mtproto/internal/verifrt"
)

// H_C16_after_key_exchange: the state every first-run client is in - a key exchange has taken place earlier in
// the same process.  The exchange's requests go through the client's own request path in service mode
// (makeAuthKey: serviceModeActivated, reqPQ -> makeRequest -> sendPacket, answer handed over by readMsg through
// the service channel); then the exchange ends exactly as makeAuthKey ends it (service mode off, encrypted on).
// Afterwards the server names the msg_id of that exchange request in a message that carries such an id.  Nobody
// waits for that id any more: the receive loop must carry on and later requests must complete.
func H_C16_after_key_exchange(kind int) {
	verifrt.SetClock(1600000000, 0, 1000)
	n := newNetEnv(5)
	n.m.Warnings = make(chan error)
	go func() {
		for range n.m.Warnings {
		}
	}()
	n.m.encrypted = false
	n.m.serviceModeActivated = true
	crashed := verifrt.Catch(func() {
		n.start()
		done := false
		var res *objects.ResPQ
		var err error
		nonce := &tl.Int128{Int: big.NewInt(0x1234567)}
		go func() {
			res, err = n.m.reqPQ(nonce)
			done = true
		}()
		req := n.nextRequest(nil)
		answer := mustMarshal(&objects.ResPQ{Nonce: nonce, ServerNonce: &tl.Int128{Int: big.NewInt(0x7654321)}, Pq: []byte{1, 2, 3, 4, 5, 6, 7, 8}, Fingerprints: []int64{verifrt.I64()}})
		n.t.in <- srvMsg{msg: &messages.Unencrypted{Msg: answer, MsgID: nextSrvID()}}
		verifrt.Quiesce()
		verifrt.Assert(done, "exchange-request-answered")
		if !done {
			return
		}
		verifrt.Assert(err == nil && res != nil, "exchange-request-own-answer")
		// (all ok) - the end of makeAuthKey
		n.m.serviceModeActivated = false
		n.m.encrypted = true

		id := req.msgID
		var body []byte
		name := ""
		switch kind {
		case 0:
			body, name = mustMarshal(&objects.BadServerSalt{BadMsgID: id, BadMsgSeqNo: verifrt.I32(), ErrorCode: 48, NewSalt: verifrt.I64()}), "bad_server_salt"
		case 1:
			body, name = rpcResult(id, mustMarshal(&objects.Pong{MsgID: id, PingID: verifrt.I64()})), "rpc_result"
		case 2:
			body, name = rpcResult(id, mustMarshal(&objects.RpcError{ErrorCode: verifrt.I32(), ErrorMessage: "X"})), "rpc_result-rpc_error"
		case 3:
			body, name = mustMarshal(&objects.BadMsgNotification{BadMsgID: id, BadMsgSeqNo: verifrt.I32(), Code: verifrt.I32()}), "bad_msg_notification"
		}
		verifrt.Note(name)
		seq := int32(2)
		if verifrt.Bool() {
			seq = 3
		}
		n.deliver(body, seq)
		verifrt.Quiesce()
		n.probe("after-exchange-" + name + "-")
		// twice: a loop that got away once by luck (a buffered hand-over, a helper goroutine) must still be there
		n.deliver(body, seq)
		verifrt.Quiesce()
		n.probe("after-exchange-twice-" + name + "-")
	})
	if crashed {
		verifrt.Note("crash: " + verifrt.PanicMsg())
	}
	verifrt.Assert(!crashed, "process-survives")
}

// H_C16_reconnect_outstanding: a request is outstanding when the server closes the connection.  The client
// reconnects (same key); then, depending on the variant, the server closes the new connection as well (1, 3) and /
// or delivers the answer to the old request on the newest connection (2, 3) - a server re-delivers answers that were
// not acknowledged.  Whatever the client does with requests that were in flight at the close, the process survives,
// the receive loop runs on the newest connection and a later request completes.
func H_C16_reconnect_outstanding(variant int) {
	verifrt.SetClock(1600000000, 0, 1000)
	n := newNetEnv(5)
	n.m.Warnings = make(chan error)
	go func() {
		for range n.m.Warnings {
		}
	}()
	var conns []*fakeTransport
	verifrt.Hook("github.com/xelaj/mtproto/internal/transport.NewTransport", func(m messages.MessageInformator, conn transport.ConnConfig, v mode.Variant) (transport.Transport, error) {
		t := &fakeTransport{m: n.m, out: make(chan sentMsg, 256), in: make(chan srvMsg, 64)}
		conns = append(conns, t)
		return t, nil
	})
	if !verifrt.Symbolic() {
		verifrt.Assert(true, "engine-only-scenario")
		return
	}
	crashed := verifrt.Catch(func() {
		n.start()
		go func() { _, _ = n.m.MakeRequest(&objects.PingParams{PingID: 777}) }()
		req := n.nextRequest(nil)
		n.t.in <- srvMsg{err: io.EOF}
		verifrt.Quiesce()
		verifrt.Assert(len(conns) == 1, "reconnected-after-first-close")
		if len(conns) != 1 {
			return
		}
		n.t = conns[0]
		if variant&1 != 0 {
			n.t.in <- srvMsg{err: io.EOF}
			verifrt.Quiesce()
			verifrt.Assert(len(conns) == 2, "reconnected-after-second-close")
			if len(conns) != 2 {
				return
			}
			n.t = conns[1]
		}
		if variant&2 != 0 {
			n.deliver(rpcResult(req.msgID, mustMarshal(&objects.Pong{MsgID: req.msgID, PingID: 777})), 1)
			verifrt.Quiesce()
		}
		n.probe("after-close-with-request-outstanding-")
	})
	if crashed {
		verifrt.Note("crash: " + verifrt.PanicMsg())
	}
	verifrt.Assert(!crashed, "process-survives")
}
