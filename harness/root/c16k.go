//go:build verif

package mtproto

import (
	"math/big"

	"github.com/xelaj/mtproto/internal/encoding/tl"
	"github.com/xelaj/mtproto/internal/mtproto/messages"
	"github.com/xelaj/mtproto/internal/mtproto/objects"
	"github.com/xelaj/mtproto/internal/verifrt"
)

// H_C16_after_key_exchange: the state every first-run client is in - a key exchange has taken place earlier in
// the same process.  The exchange's requests go through the client's own request path in service mode
// (makeAuthKey: serviceModeActivated, reqPQ -> makeRequest -> sendPacket, answer handed over by readMsg through
// the service channel); then the exchange ends exactly as makeAuthKey ends it (service mode off, encrypted on).
// Afterwards the server names the msg_id of that exchange request in a message that carries such an id.  Nobody
// waits for that id any more: the receive loop must carry on and later requests must complete.
func H_C16_after_key_exchange(kind int) {
	verifrt.SetClock(1600000000, 0, 1000)
	n := newNetEnv(5)
	n.m.Warnings = make(chan error)
	go func() {
		for range n.m.Warnings {
		}
	}()
	n.m.encrypted = false
	n.m.serviceModeActivated = true
	crashed := verifrt.Catch(func() {
		n.start()
		done := false
		var res *objects.ResPQ
		var err error
		nonce := &tl.Int128{Int: big.NewInt(0x1234567)}
		go func() {
			res, err = n.m.reqPQ(nonce)
			done = true
		}()
		req := n.nextRequest(nil)
		answer := mustMarshal(&objects.ResPQ{Nonce: nonce, ServerNonce: &tl.Int128{Int: big.NewInt(0x7654321)}, Pq: []byte{1, 2, 3, 4, 5, 6, 7, 8}, Fingerprints: []int64{verifrt.I64()}})
		n.t.in <- srvMsg{msg: &messages.Unencrypted{Msg: answer, MsgID: nextSrvID()}}
		verifrt.Quiesce()
		verifrt.Assert(done, "exchange-request-answered")
		if !done {
			return
		}
		verifrt.Assert(err == nil && res != nil, "exchange-request-own-answer")
		// (all ok) - the end of makeAuthKey
		n.m.serviceModeActivated = false
		n.m.encrypted = true

		id := req.msgID
		var body []byte
		name := ""
		switch kind {
		case 0:
			body, name = mustMarshal(&objects.BadServerSalt{BadMsgID: id, BadMsgSeqNo: verifrt.I32(), ErrorCode: 48, NewSalt: verifrt.I64()}), "bad_server_salt"
		case 1:
			body, name = rpcResult(id, mustMarshal(&objects.Pong{MsgID: id, PingID: verifrt.I64()})), "rpc_result"
		case 2:
			body, name = rpcResult(id, mustMarshal(&objects.RpcError{ErrorCode: verifrt.I32(), ErrorMessage: "X"})), "rpc_result-rpc_error"
		case 3:
			body, name = mustMarshal(&objects.BadMsgNotification{BadMsgID: id, BadMsgSeqNo: verifrt.I32(), Code: verifrt.I32()}), "bad_msg_notification"
		}
		verifrt.Note(name)
		seq := int32(2)
		if verifrt.Bool() {
			seq = 3
		}
		n.deliver(body, seq)
		verifrt.Quiesce()
		n.probe("after-exchange-" + name + "-")
		// twice: a loop that got away once by luck (a buffered hand-over, a helper goroutine) must still be there
		n.deliver(body, seq)
		verifrt.Quiesce()
		n.probe("after-exchange-twice-" + name + "-")
	})
	if crashed {
		verifrt.Note("crash: " + verifrt.PanicMsg())
	}
	verifrt.Assert(!crashed, "process-survives")
}
