//go:build verif

package mtproto

import (
	"github.com/xelaj/mtproto/internal/mtproto/objects"
	"github.com/xelaj/mtproto/internal/verifrt"
)

// the 15-row prefix/suffix table of the statement, restated independently of errors.go
var refRows = [][2]string{
	{"EMAIL_UNCONFIRMED_", ""}, {"FILE_MIGRATE_", ""}, {"FILE_PART_", "_MISSING"}, {"FLOOD_TEST_PHONE_WAIT_", ""},
	{"FLOOD_WAIT_", ""}, {"INTERDC_", "_CALL_ERROR"}, {"INTERDC_", "_CALL_RICH_ERROR"}, {"NETWORK_MIGRATE_", ""},
	{"PASSWORD_TOO_FRESH_", ""}, {"PHONE_MIGRATE_", ""}, {"SESSION_TOO_FRESH_", ""}, {"SLOWMODE_WAIT_", ""},
	{"STATS_MIGRATE_", ""}, {"TAKEOUT_INIT_DELAY_", ""}, {"USER_MIGRATE_", ""},
}

// refAtoi: optional sign followed by 1..18 decimal digits (always fits an int).
func refAtoi(s string) (int, bool) {
	i := 0
	neg := false
	if len(s) > 0 && (s[0] == '+' || s[0] == '-') {
		neg = s[0] == '-'
		i = 1
	}
	if i == len(s) || len(s)-i > 18 {
		return 0, false
	}
	n := 0
	for ; i < len(s); i++ {
		c := s[i]
		if c < '0' || c > '9' {
			return 0, false
		}
		n = n*10 + int(c-'0')
	}
	if neg {
		n = -n
	}
	return n, true
}

// H_C17_table: prefix ‖ σ ‖ suffix for one table row and every σ of length 0..maxsig.
func H_C17_table(row, maxsig int) {
	pre, suf := refRows[row][0], refRows[row][1]
	sig := verifrt.String(verifrt.Len(maxsig))
	s := pre + sig + suf
	var name string
	var add interface{}
	pn := verifrt.Catch(func() { name, add = TryExpandError(s) })
	verifrt.Assert(!pn, "table-no-panic")
	if pn {
		return
	}
	v, ok := refAtoi(sig)
	if ok {
		verifrt.Cover("numeric")
		verifrt.Assert(verifrt.SameString(name, pre+"X"+suf), "numeric-parameter-replaced-by-X")
		got, isInt := add.(int)
		verifrt.Assert(isInt, "numeric-parameter-returned-as-int")
		if isInt {
			verifrt.Assert(got == v, "numeric-parameter-value")
		}
	} else {
		verifrt.Cover("non-numeric")
		verifrt.Assert(verifrt.SameString(name, s), "non-numeric-text-unchanged")
		verifrt.Assert(add == nil, "non-numeric-no-parameter")
	}
	// the same text through the entry point callers see
	code := verifrt.I32()
	var e error
	pn = verifrt.Catch(func() { e = RpcErrorToNative(&objects.RpcError{ErrorCode: code, ErrorMessage: s}) })
	verifrt.Assert(!pn, "table-native-no-panic")
	if pn {
		return
	}
	r, isR := e.(*ErrResponseCode)
	verifrt.Assert(isR, "table-structured-error")
	if !isR {
		return
	}
	verifrt.Assert(r.Code == int(code), "table-code-is-server-code")
	if ok {
		verifrt.Assert(verifrt.SameString(r.Message, pre+"X"+suf), "structured-message-has-X")
		got, isInt := r.AdditionalInfo.(int)
		verifrt.Assert(isInt, "structured-parameter-is-int")
		if isInt {
			verifrt.Assert(got == v, "structured-parameter-value")
		}
	} else {
		verifrt.Assert(verifrt.SameString(r.Message, s), "structured-non-numeric-text-unchanged")
		verifrt.Assert(r.AdditionalInfo == nil, "structured-non-numeric-no-parameter")
	}
}

// refParam: does the concrete text match a table row with a numeric parameter?
func refParam(s string) (int, bool) {
	for _, row := range refRows {
		if len(s) >= len(row[0])+len(row[1]) && s[:len(row[0])] == row[0] && s[len(s)-len(row[1]):] == row[1] {
			return refAtoi(s[len(row[0]) : len(s)-len(row[1])])
		}
	}
	return 0, false
}

func hasPre(s, p string) bool { return len(s) >= len(p) && verifrt.SameString(s[:len(p)], p) }
func hasSuf(s, p string) bool { return len(s) >= len(p) && verifrt.SameString(s[len(s)-len(p):], p) }

// H_C17_arbitrary: every string of length 0..maxlen: no panic; a text matching no row is returned
// unchanged without parameter; the structured error carries the server's code.
func H_C17_arbitrary(maxlen int) {
	s := verifrt.String(verifrt.Len(maxlen))
	code := verifrt.I32()
	var e error
	pn := verifrt.Catch(func() { e = RpcErrorToNative(&objects.RpcError{ErrorCode: code, ErrorMessage: s}) })
	verifrt.Assert(!pn, "arbitrary-no-panic")
	if pn {
		return
	}
	r, ok := e.(*ErrResponseCode)
	verifrt.Assert(ok, "structured-error")
	if !ok {
		return
	}
	verifrt.Assert(r.Code == int(code), "code-is-server-code")
	matches := false
	for _, row := range refRows {
		if hasPre(s, row[0]) && hasSuf(s, row[1]) {
			matches = true
		}
	}
	if !matches {
		verifrt.Cover("no-row")
		verifrt.Assert(verifrt.SameString(r.Message, s), "unknown-text-unchanged")
		verifrt.Assert(r.AdditionalInfo == nil, "unknown-text-no-parameter")
	}
}

// H_C17_catalogue: every catalogued name maps to its documented description (ground obligations).
func H_C17_catalogue() {
	for name, desc := range errorMessages {
		var e error
		pn := verifrt.Catch(func() { e = RpcErrorToNative(&objects.RpcError{ErrorCode: 400, ErrorMessage: name}) })
		verifrt.Assert(!pn, "catalogue-no-panic")
		if pn {
			continue
		}
		r := e.(*ErrResponseCode)
		verifrt.Assert(r.Code == 400, "catalogue-code")
		if v, numeric := refParam(name); numeric {
			// an entry that itself carries a numeric parameter (FILE_PART_0_MISSING) is the parametrised case
			got, isInt := r.AdditionalInfo.(int)
			verifrt.Assert(isInt && got == v, "catalogue-numeric-entry-is-parametrised")
			continue
		}
		verifrt.Assert(r.Message == name, "catalogue-name-kept")
		verifrt.Assert(r.Description == desc, "catalogue-description")
	}
}
