//go:build verif

package utils

import (
	"time"

	"github.com/xelaj/mtproto/internal/verifrt"
)

// H_C10_msgid: successive clock readings (symbolic, non-decreasing, below 2^31 seconds): generated ids are
// multiples of four, carry the current unix second in the high word and the nanoseconds in the low word, and
// never decrease.
func H_C10_msgid() {
	t0 := time.Now().Unix()
	id1 := GenerateMessageId()
	t1 := time.Now().Unix()
	id2 := GenerateMessageId()
	t2 := time.Now().Unix()
	verifrt.Assert(id1&3 == 0, "msg-id-multiple-of-4")
	verifrt.Assert(id2&3 == 0, "msg-id-multiple-of-4")
	verifrt.Assert(id1 >= 0, "msg-id-non-negative")
	verifrt.Assert(t0 <= id1>>32, "msg-id-high-word-is-current-second")
	verifrt.Assert(id1>>32 <= t1, "msg-id-high-word-is-current-second")
	verifrt.Assert(t1 <= id2>>32, "msg-id-high-word-is-current-second")
	verifrt.Assert(id2>>32 <= t2, "msg-id-high-word-is-current-second")
	verifrt.Assert(id2 >= id1, "msg-id-monotone-in-clock")
	verifrt.Assert(int64(uint32(id1)) < 1000000000, "msg-id-low-word-is-nanoseconds")
}
