//go:build verif

package ige

import (
	"crypto/sha1"
	"math/big"

	"github.com/xelaj/mtproto/internal/verifrt"
)

// textbook IGE on 16-byte blocks: c_i = E_k(p_i ^ c_{i-1}) ^ p_{i-1}, iv = c_0 ‖ p_0.
func refIGEEncrypt(key, iv, p []byte) []byte {
	blk, _ := NewCipher(key, iv) // only to obtain the cipher.Block for the key
	cPrev := append([]byte{}, iv[:16]...)
	pPrev := append([]byte{}, iv[16:]...)
	out := make([]byte, 0, len(p))
	for i := 0; i < len(p); i += 16 {
		x := make([]byte, 16)
		for j := 0; j < 16; j++ {
			x[j] = p[i+j] ^ cPrev[j]
		}
		y := make([]byte, 16)
		blk.block.Encrypt(y, x)
		for j := 0; j < 16; j++ {
			y[j] ^= pPrev[j]
		}
		out = append(out, y...)
		cPrev = y
		pPrev = p[i : i+16]
	}
	return out
}

// H_C05_ige: encryption equals the IGE definition, decryption inverts it, buffers untouched.
func H_C05_ige(blocks int) {
	key := verifrt.Bytes(32)
	iv := verifrt.Bytes(32)
	pw := verifrt.Bytes(16*blocks + 16) // input and output are fronts of larger caller buffers
	p := pw[:16*blocks]
	pw0 := append([]byte{}, pw...)
	p0 := append([]byte{}, p...)
	k0 := append([]byte{}, key...)
	iv0 := append([]byte{}, iv...)
	ow := verifrt.Bytes(16*blocks + 16)
	ow0 := append([]byte{}, ow...)
	out := ow[:len(p)]
	var err error
	pn := verifrt.Catch(func() { err = doAES256IGEencrypt(p, out, key, iv) })
	verifrt.Assert(verifrt.SameBytes(pw, pw0), "enc-callers-input-buffer-untouched")
	verifrt.Assert(verifrt.SameBytes(ow[len(p):], ow0[len(p):]), "enc-writes-only-the-output-range")
	verifrt.Assert(!pn, "enc-no-panic")
	if pn {
		return
	}
	verifrt.Assert(err == nil, "enc-no-error")
	ref := refIGEEncrypt(key, iv, p)
	verifrt.Observe("ct", out)
	verifrt.Assert(verifrt.SameBytes(out, ref), "enc-equals-definition")
	verifrt.Assert(verifrt.SameBytes(p, p0), "enc-input-untouched")
	verifrt.Assert(verifrt.SameBytes(key, k0), "enc-key-untouched")
	verifrt.Assert(verifrt.SameBytes(iv, iv0), "enc-iv-untouched")
	back := make([]byte, len(p))
	c0 := append([]byte{}, out...)
	pn = verifrt.Catch(func() { err = doAES256IGEdecrypt(out, back, key, iv) })
	verifrt.Assert(!pn, "dec-no-panic")
	if pn {
		return
	}
	verifrt.Assert(err == nil, "dec-no-error")
	verifrt.Observe("pt", back)
	verifrt.Assert(verifrt.SameBytes(back, p), "dec-inverts")
	verifrt.Assert(verifrt.SameBytes(out, c0), "dec-input-untouched")
	verifrt.Assert(verifrt.SameBytes(key, k0), "dec-key-untouched")
	verifrt.Assert(verifrt.SameBytes(iv, iv0), "dec-iv-untouched")
}

// H_C05_lengths: both entry points refuse exactly len = 0 or len mod 16 != 0, never panic.
func H_C05_lengths(maxlen int) {
	n := verifrt.Len(maxlen)
	p := verifrt.Bytes(n)
	key := verifrt.Bytes(32)
	iv := verifrt.Bytes(32)
	out := make([]byte, n)
	var err error
	pn := verifrt.Catch(func() { err = doAES256IGEencrypt(p, out, key, iv) })
	verifrt.Assert(!pn, "enc-len-no-panic")
	bad := n == 0 || n%16 != 0
	verifrt.Assert((err != nil) == bad, "enc-refuse-iff-bad-length")
	pn = verifrt.Catch(func() { err = doAES256IGEdecrypt(p, out, key, iv) })
	verifrt.Assert(!pn, "dec-len-no-panic")
	verifrt.Assert((err != nil) == bad, "dec-refuse-iff-bad-length")
}

func refSha1(b []byte) []byte { h := sha1.Sum(b); return h[:] }

func cat(parts ...[]byte) []byte {
	var out []byte
	for _, p := range parts {
		out = append(out, p...)
	}
	return out
}

// MTProto 1.0 key schedule, written from core.telegram.org/mtproto/description_v1 (x = 0 client->server,
// x = 8 server->client).
func refKeyIV(msgKey, authKey []byte, x int) (key, iv []byte) {
	a := refSha1(cat(msgKey, authKey[x:x+32]))
	b := refSha1(cat(authKey[32+x:48+x], msgKey, authKey[48+x:64+x]))
	c := refSha1(cat(authKey[64+x:96+x], msgKey))
	d := refSha1(cat(msgKey, authKey[96+x:128+x]))
	key = cat(a[0:8], b[8:20], c[4:16])
	iv = cat(a[8:20], b[0:8], c[16:20], d[0:8])
	return
}

// H_C05_encrypt: Encrypt(msg, key) = IGE(msg ‖ 0^pad) under the send-direction key schedule.
func H_C05_encrypt(minlen, maxlen int) {
	n := minlen + verifrt.Len(maxlen-minlen)
	// the message is the front of a larger buffer (two messages packed back to back): the spare capacity behind
	// it is the caller's too
	whole := verifrt.Bytes(n + 16)
	msg := whole[:n]
	key := verifrt.Bytes(256)
	m0 := append([]byte{}, msg...)
	w0 := append([]byte{}, whole...)
	k0 := append([]byte{}, key...)
	var out []byte
	var err error
	pn := verifrt.Catch(func() { out, err = Encrypt(msg, key) })
	verifrt.Assert(verifrt.SameBytes(whole, w0), "encrypt-callers-buffer-untouched")
	verifrt.Assert(verifrt.SameBytes(key, k0), "encrypt-key-untouched")
	verifrt.Assert(!pn, "encrypt-no-panic")
	if pn {
		return
	}
	verifrt.Assert(err == nil, "encrypt-no-error")
	if err != nil {
		return
	}
	mk := refSha1(msg)[4:20]
	k, iv := refKeyIV(mk, key, 0)
	padded := append(append([]byte{}, msg...), make([]byte, (16-n%16)%16)...)
	verifrt.Assert(len(out) == len(padded), "encrypt-length-next-multiple-of-16")
	verifrt.Observe("enc", out)
	verifrt.Assert(verifrt.SameBytes(out, refIGEEncrypt(k, iv, padded)), "encrypt-equals-ige-of-zero-padded")
	verifrt.Assert(verifrt.SameBytes(msg, m0), "encrypt-input-untouched")
	verifrt.Assert(verifrt.SameBytes(MessageKey(msg), mk), "message-key")
}

// ---- key-exchange wrappers (temp keys derived from the two nonces)

// specification (core.telegram.org/mtproto/auth_key), on the fixed-width 32/16 byte encodings of the nonces
func refTempKeys(newNonce, serverNonce []byte) (key, iv []byte) {
	h1 := refSha1(cat(newNonce, serverNonce))
	h2 := refSha1(cat(serverNonce, newNonce))
	h3 := refSha1(cat(newNonce, newNonce))
	key = cat(h1, h2[0:12])
	iv = cat(h2[12:20], h3, newNonce[0:4])
	return
}

// H_C05_tempkeys: generateTempKeys equals the specification for every nonce value, leading zero bytes included.
func H_C05_tempkeys() {
	nn := verifrt.Bytes(32)
	sn := verifrt.Bytes(16)
	var key, iv []byte
	pn := verifrt.Catch(func() { key, iv = generateTempKeys(new(big.Int).SetBytes(nn), new(big.Int).SetBytes(sn)) })
	verifrt.Assert(!pn, "tempkeys-no-panic")
	if pn {
		return
	}
	wk, wi := refTempKeys(nn, sn)
	verifrt.Observe("key", key)
	verifrt.Observe("iv", iv)
	verifrt.Assert(verifrt.SameBytes(key, wk), "tmp-aes-key-as-specified")
	verifrt.Assert(verifrt.SameBytes(iv, wi), "tmp-aes-iv-as-specified")
}

// H_C05_tempwrap_self: what the client itself seals (SHA-1 prefix + random padding) it also opens, for every
// payload length lo..hi; the nonces have no leading zero bytes here (H_C05_tempkeys covers those).
func H_C05_tempwrap_self(lo, hi int) {
	n := lo + verifrt.Len(hi-lo)
	mw := verifrt.Bytes(n + 16)
	mw0 := append([]byte{}, mw...)
	msg := mw[:n]
	nn := verifrt.Bytes(32)
	sn := verifrt.Bytes(16)
	verifrt.Assume(nn[0] != 0)
	verifrt.Assume(sn[0] != 0)
	a, b := new(big.Int).SetBytes(nn), new(big.Int).SetBytes(sn)
	verifrt.AssumeCollisionFree()
	var ct, back []byte
	pn := verifrt.Catch(func() { ct = EncryptMessageWithTempKeys(msg, a, b) })
	verifrt.Assert(verifrt.SameBytes(mw, mw0), "tempwrap-seal-callers-buffer-untouched")
	verifrt.Assert(!pn, "tempwrap-seal-no-panic")
	if pn {
		return
	}
	verifrt.Assert(len(ct)%16 == 0 && len(ct) >= 20+n, "tempwrap-sealed-length")
	verifrt.Assert(len(ct)-20-n < 16, "tempwrap-padding-is-0-to-15-bytes")
	ct0 := append([]byte{}, ct...)
	pn = verifrt.Catch(func() { back = DecryptMessageWithTempKeys(ct, a, b) })
	verifrt.Assert(verifrt.SameBytes(ct, ct0), "tempwrap-open-input-untouched")
	verifrt.Assert(!pn, "tempwrap-open-own-no-panic")
	if pn {
		return
	}
	verifrt.Assert(verifrt.SameBytes(back, msg), "tempwrap-open-own-roundtrip")
}

// H_C05_tempwrap_peer: a conformant peer seals SHA1(m) ‖ m ‖ pad with 0..15 arbitrary padding bytes (total a
// multiple of 16) under the specified temp keys; the client recovers m.
func H_C05_tempwrap_peer(lo, hi int) {
	n := lo + verifrt.Len(hi-lo)
	msg := verifrt.Bytes(n)
	nn := verifrt.Bytes(32)
	sn := verifrt.Bytes(16)
	verifrt.Assume(nn[0] != 0)
	verifrt.Assume(sn[0] != 0)
	pad := verifrt.Bytes((16 - (20+n)%16) % 16)
	key, iv := refTempKeys(nn, sn)
	ct := refIGEEncrypt(key, iv, cat(refSha1(msg), msg, pad))
	verifrt.AssumeCollisionFree()
	var back []byte
	pn := verifrt.Catch(func() { back = DecryptMessageWithTempKeys(ct, new(big.Int).SetBytes(nn), new(big.Int).SetBytes(sn)) })
	verifrt.Assert(!pn, "tempwrap-open-peer-no-panic")
	if pn {
		return
	}
	verifrt.Assert(verifrt.SameBytes(back, msg), "tempwrap-open-peer-roundtrip")
}
