//go:build verif

package messages

// Reference MTProto 1.0 envelope, written from core.telegram.org/mtproto/description_v1.  Shares only the
// primitives (SHA-1, AES block) with the implementation.

import (
	"crypto/aes"
	"crypto/sha1"
)

func refSha1(b []byte) []byte { h := sha1.Sum(b); return h[:] }

func cat(parts ...[]byte) []byte {
	out := []byte{}
	for _, p := range parts {
		out = append(out, p...)
	}
	return out
}

func le32(v uint32) []byte { return []byte{byte(v), byte(v >> 8), byte(v >> 16), byte(v >> 24)} }
func le64(v uint64) []byte {
	return []byte{byte(v), byte(v >> 8), byte(v >> 16), byte(v >> 24), byte(v >> 32), byte(v >> 40), byte(v >> 48), byte(v >> 56)}
}
func rd32(b []byte) uint32 {
	return uint32(b[0]) | uint32(b[1])<<8 | uint32(b[2])<<16 | uint32(b[3])<<24
}
func rd64(b []byte) uint64 { return uint64(rd32(b[0:4])) | uint64(rd32(b[4:8]))<<32 }

// x = 0: client->server, x = 8: server->client
func refKeyIV(msgKey, authKey []byte, x int) (key, iv []byte) {
	a := refSha1(cat(msgKey, authKey[x:x+32]))
	b := refSha1(cat(authKey[32+x:48+x], msgKey, authKey[48+x:64+x]))
	c := refSha1(cat(authKey[64+x:96+x], msgKey))
	d := refSha1(cat(msgKey, authKey[96+x:128+x]))
	key = cat(a[0:8], b[8:20], c[4:16])
	iv = cat(a[8:20], b[0:8], c[16:20], d[0:8])
	return
}

// textbook IGE: c_i = E(p_i ^ c_{i-1}) ^ p_{i-1}; iv = c_0 ‖ p_0
func refIGEEncrypt(key, iv, p []byte) []byte {
	blk, _ := aes.NewCipher(key)
	cPrev := append([]byte{}, iv[:16]...)
	pPrev := append([]byte{}, iv[16:]...)
	out := make([]byte, 0, len(p))
	for i := 0; i+16 <= len(p); i += 16 {
		x := make([]byte, 16)
		for j := 0; j < 16; j++ {
			x[j] = p[i+j] ^ cPrev[j]
		}
		y := make([]byte, 16)
		blk.Encrypt(y, x)
		for j := 0; j < 16; j++ {
			y[j] ^= pPrev[j]
		}
		out = append(out, y...)
		cPrev = y
		pPrev = p[i : i+16]
	}
	return out
}

// p_i = D(c_i ^ p_{i-1}) ^ c_{i-1}
func refIGEDecrypt(key, iv, c []byte) []byte {
	blk, _ := aes.NewCipher(key)
	cPrev := append([]byte{}, iv[:16]...)
	pPrev := append([]byte{}, iv[16:]...)
	out := make([]byte, 0, len(c))
	for i := 0; i+16 <= len(c); i += 16 {
		x := make([]byte, 16)
		for j := 0; j < 16; j++ {
			x[j] = c[i+j] ^ pPrev[j]
		}
		y := make([]byte, 16)
		blk.Decrypt(y, x)
		for j := 0; j < 16; j++ {
			y[j] ^= cPrev[j]
		}
		out = append(out, y...)
		pPrev = y
		cPrev = c[i : i+16]
	}
	return out
}

func refPlain(salt, session, msgID uint64, seqNo uint32, declaredLen uint32, body []byte) []byte {
	return cat(le64(salt), le64(session), le64(msgID), le32(seqNo), le32(declaredLen), body)
}

// refSealRaw seals plain‖pad (len multiple of 16) with the given msg_key.
func refSealRaw(authKey, msgKey, padded []byte, x int) []byte {
	k, iv := refKeyIV(msgKey, authKey, x)
	return cat(refSha1(authKey)[12:20], msgKey, refIGEEncrypt(k, iv, padded))
}

func refSeal(authKey, plain, pad []byte, x int) []byte {
	return refSealRaw(authKey, refSha1(plain)[4:20], cat(plain, pad), x)
}

type stubInformator struct {
	session int64
	seqNo   int32
	salt    int64
	key     []byte
	during  func(which int) // what else happens in the process while this connection's message is being sealed
}

func (s *stubInformator) meanwhile(which int) {
	if s.during != nil {
		s.during(which)
	}
}
func (s *stubInformator) GetSessionID() int64  { s.meanwhile(0); return s.session }
func (s *stubInformator) GetSeqNo() int32      { s.meanwhile(1); return s.seqNo }
func (s *stubInformator) GetServerSalt() int64 { s.meanwhile(2); return s.salt }
func (s *stubInformator) GetAuthKey() []byte   { s.meanwhile(3); return s.key }
