//go:build verif

package messages

import "github.com/xelaj/mtproto/internal/verifrt"

// H_C03_serialize: client->server envelope equals the MTProto 1.0 reference sealing (x = 0), zero padded
// to the next multiple of 16 (fewer than 16 padding bytes), seq_no carries the ack bit.
func H_C03_serialize(minlen, maxlen int) {
	n := minlen + verifrt.Len(maxlen-minlen)
	key := verifrt.Bytes(256)
	inf := &stubInformator{session: verifrt.I64(), seqNo: verifrt.I32(), salt: verifrt.I64(), key: key}
	msgID := verifrt.I64()
	ack := verifrt.Bool()
	body := verifrt.Bytes(n)
	var out []byte
	var err error
	// the receive-side fields of the struct are arbitrary leftovers (a message built before a re-key, a loaded
	// session whose stored hash does not belong to the stored key): the envelope must not depend on them
	m := &Encrypted{Msg: body, MsgID: msgID}
	if verifrt.Bool() {
		m.AuthKeyHash = verifrt.Bytes(8)
		m.Salt, m.SessionID, m.SeqNo, m.MsgKey = verifrt.I64(), verifrt.I64(), verifrt.I32(), verifrt.Bytes(16)
	}
	pn := verifrt.Catch(func() { out, err = m.Serialize(inf, ack) })
	verifrt.Assert(!pn, "serialize-no-panic")
	if pn {
		return
	}
	verifrt.Assert(err == nil, "serialize-no-error")
	if err != nil {
		return
	}
	seq := uint32(inf.seqNo)
	if ack {
		seq |= 1
	}
	plain := refPlain(uint64(inf.salt), uint64(inf.session), uint64(msgID), seq, uint32(n), body)
	pad := make([]byte, (16-len(plain)%16)%16)
	want := refSeal(key, plain, pad, 0)
	verifrt.Observe("pkt", out)
	verifrt.Assert(len(out) == len(want), "serialize-length")
	verifrt.Assert(len(out)-24-len(plain) < 16, "fewer-than-16-padding-bytes")
	if len(out) == len(want) {
		verifrt.Assert(verifrt.SameBytes(out[0:8], want[0:8]), "auth-key-id")
		verifrt.Assert(verifrt.SameBytes(out[8:24], want[8:24]), "msg-key")
		verifrt.Assert(verifrt.SameBytes(out[24:], want[24:]), "ciphertext")
	}
}

// H_C03_open: a packet sealed by a conformant server (x = 8, 0..15 arbitrary padding bytes) opens to exactly
// the salt, session id, msg_id, seq_no and body it contains.
func H_C03_open(minlen, maxlen int) {
	n := minlen + verifrt.Len(maxlen-minlen)
	key := verifrt.Bytes(256)
	salt, session, msgID := verifrt.U64(), verifrt.U64(), verifrt.U64()
	seq := verifrt.U32()
	body := verifrt.Bytes(n)
	verifrt.Assume(msgID&1 == 1) // server parity: 1 or 3 mod 4
	plain := refPlain(salt, session, msgID, seq, uint32(n), body)
	pad := verifrt.Bytes((16 - len(plain)%16) % 16)
	pkt := refSeal(key, plain, pad, 8)
	var msg *Encrypted
	var err error
	pn := verifrt.Catch(func() { msg, err = DeserializeEncrypted(pkt, key) })
	verifrt.Assert(!pn, "open-no-panic")
	if pn {
		return
	}
	verifrt.Assert(err == nil, "open-accepts-conformant-packet")
	if err != nil {
		return
	}
	verifrt.Assert(uint64(msg.Salt) == salt, "open-salt")
	verifrt.Assert(uint64(msg.SessionID) == session, "open-session")
	verifrt.Assert(uint64(msg.MsgID) == msgID, "open-msg-id")
	verifrt.Assert(uint32(msg.SeqNo) == seq, "open-seq-no")
	verifrt.Observe("body", msg.Msg)
	verifrt.Assert(verifrt.SameBytes(msg.Msg, body), "open-body")
	verifrt.Assert(msg.GetMsgID() == int(int64(msgID)), "open-getmsgid")
	verifrt.Assert(msg.GetSeqNo() == int(int32(seq)), "open-getseqno")
}

// H_C03_unencrypted: zero key id, msg_id, exact body length; deserialisation inverts it.
func H_C03_unencrypted(maxlen int) {
	n := verifrt.Len(maxlen)
	msgID := verifrt.I64()
	body := verifrt.Bytes(n)
	var out []byte
	var err error
	pn := verifrt.Catch(func() { out, err = (&Unencrypted{Msg: body, MsgID: msgID}).Serialize(nil) })
	verifrt.Assert(!pn, "unenc-serialize-no-panic")
	if pn {
		return
	}
	verifrt.Assert(err == nil, "unenc-serialize-no-error")
	want := cat(le64(0), le64(uint64(msgID)), le32(uint32(n)), body)
	verifrt.Observe("unenc", out)
	verifrt.Assert(verifrt.SameBytes(out, want), "unenc-layout")
	verifrt.Assume(msgID&1 == 1)
	var m *Unencrypted
	pn = verifrt.Catch(func() { m, err = DeserializeUnencrypted(want) })
	verifrt.Assert(!pn, "unenc-open-no-panic")
	if pn {
		return
	}
	verifrt.Assert(err == nil, "unenc-open-accepts")
	if err == nil {
		verifrt.Assert(m.MsgID == msgID, "unenc-open-msg-id")
		verifrt.Assert(verifrt.SameBytes(m.Msg, body), "unenc-open-body")
	}
}

// H_C03_overlap: two connections of one process (main DC + a file-transfer DC) seal messages at overlapping
// times: while connection A's Serialize is between any two of its steps (observed at the moment it asks A for
// its session id / seq_no / salt / key), connection B seals a whole message of its own.  A's packet is still
// exactly the envelope of A's fields and body under A's key (nothing of B's leaks in), and so is B's.
func H_C03_overlap(n, when int) {
	keyA, keyB := verifrt.Bytes(256), verifrt.Bytes(256)
	a := &stubInformator{session: verifrt.I64(), seqNo: verifrt.I32(), salt: verifrt.I64(), key: keyA}
	b := &stubInformator{session: verifrt.I64(), seqNo: verifrt.I32(), salt: verifrt.I64(), key: keyB}
	idA, idB := verifrt.I64(), verifrt.I64()
	bodyA, bodyB := verifrt.Bytes(n), verifrt.Bytes(n+4)
	var outA, outB []byte
	var errA, errB error
	done := false
	a.during = func(which int) {
		if which != when || done {
			return
		}
		done = true
		outB, errB = (&Encrypted{Msg: bodyB, MsgID: idB}).Serialize(b, false)
	}
	pn := verifrt.Catch(func() { outA, errA = (&Encrypted{Msg: bodyA, MsgID: idA}).Serialize(a, true) })
	verifrt.Assert(!pn && errA == nil && errB == nil, "overlap-serialize-ok")
	if pn || errA != nil || errB != nil {
		return
	}
	verifrt.Assert(done, "overlap-happened")
	check := func(tag string, out, key []byte, inf *stubInformator, id int64, seq uint32, body []byte) {
		plain := refPlain(uint64(inf.salt), uint64(inf.session), uint64(id), seq, uint32(len(body)), body)
		want := refSeal(key, plain, make([]byte, (16-len(plain)%16)%16), 0)
		verifrt.Assert(len(out) == len(want), tag+"-length")
		if len(out) == len(want) {
			verifrt.Assert(verifrt.SameBytes(out[0:24], want[0:24]), tag+"-key-id-and-msg-key")
			verifrt.Assert(verifrt.SameBytes(out[24:], want[24:]), tag+"-ciphertext")
		}
	}
	check("overlap-A", outA, keyA, a, idA, uint32(a.seqNo)|1, bodyA)
	check("overlap-B", outB, keyB, b, idB, uint32(b.seqNo), bodyB)
}
