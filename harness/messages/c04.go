//go:build verif

package messages

import "github.com/xelaj/mtproto/internal/verifrt"

// acceptanceOnlyIf asserts the property's first sentence for an accepted packet whose decrypted content is
// `dec` (reference decryption), declared length L, key id kid and msg_key mk taken from the packet.
func checkAccepted(tagp string, msg *Encrypted, dec []byte, mk []byte) {
	salt, session, msgID := rd64(dec[0:8]), rd64(dec[8:16]), rd64(dec[16:24])
	seq, L := rd32(dec[24:28]), int32(rd32(dec[28:32]))
	inside := verifrt.And(L >= 0, int(L) <= len(dec)-32)
	verifrt.Assert(inside, tagp+"accepted-implies-declared-length-inside")
	verifrt.Assert(msgID&1 == 1, tagp+"accepted-implies-server-parity")
	verifrt.Assert(uint64(msg.Salt) == salt, tagp+"accepted-salt")
	verifrt.Assert(uint64(msg.SessionID) == session, tagp+"accepted-session")
	verifrt.Assert(uint64(msg.MsgID) == msgID, tagp+"accepted-msg-id")
	verifrt.Assert(uint32(msg.SeqNo) == seq, tagp+"accepted-seq-no")
	verifrt.Assume(inside)
	l := int(L) // concretised by the engine: one path per feasible value
	verifrt.Assert(verifrt.SameBytes(refSha1(dec[:32+l])[4:20], mk), tagp+"accepted-implies-msg-key-matches")
	verifrt.Assert(len(msg.Msg) == l, tagp+"accepted-body-length")
	if len(msg.Msg) == l {
		verifrt.Assert(verifrt.SameBytes(msg.Msg, dec[32:32+l]), tagp+"accepted-body")
	}
}

// H_C04_short: packets shorter than header + one cipher block (every length 0..39), first 8 bytes either the
// right key id or arbitrary: always refused, never a panic.
func H_C04_short(maxlen int) {
	n := verifrt.Len(maxlen)
	key := verifrt.Bytes(256)
	pkt := verifrt.Bytes(n)
	if verifrt.Bool() && n >= 8 {
		copy(pkt, refSha1(key)[12:20])
	}
	var err error
	pn := verifrt.Catch(func() { _, err = DeserializeEncrypted(pkt, key) })
	verifrt.Assert(!pn, "short-no-panic")
	if !pn {
		verifrt.Assert(err != nil, "short-refused")
	}
}

// H_C04_keyholder: an attacker holding the key seals an arbitrary inner plaintext: every declared length
// (any int32), msg_key honest for that length or arbitrary.  Accepted only if all conditions hold; no panic.
func H_C04_keyholder(blocks int) {
	key := verifrt.Bytes(256)
	plain := verifrt.Bytes(16 * blocks) // header (32 bytes) + data + padding, fully symbolic incl. declared length
	var mk []byte
	honest := verifrt.Bool()
	if honest {
		// honest msg_key for the declared length when that length is inside; else arbitrary
		L := int32(rd32(plain[28:32]))
		verifrt.Assume(verifrt.And(L >= 0, int(L) <= len(plain)-32))
		mk = refSha1(plain[:32+int(L)])[4:20]
	} else {
		// a wrong msg_key, built constructively so that a counterexample replays with the real SHA-1: the
		// honest key for the declared length (when that length is inside) xor a non-zero difference
		delta := verifrt.Bytes(16)
		L := int32(rd32(plain[28:32]))
		if verifrt.And(L >= 0, int(L) <= len(plain)-32) {
			var nz byte
			for _, d := range delta {
				nz |= d
			}
			verifrt.Assume(nz != 0)
			mk = refSha1(plain[:32+int(L)])[4:20]
			for i := range mk {
				mk[i] ^= delta[i]
			}
		} else {
			mk = delta
		}
	}
	pkt := refSealRaw(key, mk, plain, 8)
	var msg *Encrypted
	var err error
	pn := verifrt.Catch(func() { msg, err = DeserializeEncrypted(pkt, key) })
	verifrt.Assert(!pn, "keyholder-no-panic")
	if pn {
		return
	}
	if err == nil {
		verifrt.Cover("keyholder-accepted")
		checkAccepted("keyholder-", msg, plain, mk)
	} else if honest {
		verifrt.Assert(rd64(plain[16:24])&1 == 0, "keyholder-honest-valid-packet-accepted")
	}
}

// H_C04_tamper: an honest server packet altered by (kind 0) one flipped bit of the key id, (1) one flipped bit
// of the ciphertext, (2) truncation to any shorter length, (3) opened under a different auth key.
// Never a panic; never a message different from the sealed one; kinds 0, 2, 3 always refused.
func H_C04_tamper(n int, kind int) {
	key := verifrt.Bytes(256)
	salt, session, msgID := verifrt.U64(), verifrt.U64(), verifrt.U64()
	seq := verifrt.U32()
	body := verifrt.Bytes(n)
	verifrt.Assume(msgID&1 == 1)
	plain := refPlain(salt, session, msgID, seq, uint32(n), body)
	pad := verifrt.Bytes((16 - len(plain)%16) % 16)
	pkt := refSeal(key, plain, pad, 8)
	openKey := key
	switch kind {
	case 0, 1:
		// symbolic flip position: one path covers every (byte, bit) of the region
		lo, hi := 0, 8
		if kind == 1 {
			lo, hi = 24, len(pkt)
		}
		i := verifrt.Int()
		b := verifrt.Byte()
		verifrt.Assume(verifrt.And(i >= lo, i < hi))
		verifrt.Assume(b < 8)
		for j := lo; j < hi; j++ {
			pkt[j] ^= verifrt.IteByte(j == i, byte(1)<<b, 0)
		}
	case 2:
		pkt = pkt[:verifrt.Len(len(pkt)-1)]
	case 3:
		openKey = verifrt.Bytes(256)
		verifrt.Assume(!verifrt.SameBytes(openKey, key))
	}
	verifrt.AssumeCollisionFree()
	var msg *Encrypted
	var err error
	pn := verifrt.Catch(func() { msg, err = DeserializeEncrypted(pkt, openKey) })
	verifrt.Assert(!pn, "tamper-no-panic")
	if pn {
		return
	}
	if kind != 1 {
		verifrt.Assert(err != nil, "tamper-refused")
	}
	if err == nil {
		same := verifrt.And(uint64(msg.Salt) == salt, uint64(msg.SessionID) == session)
		same = verifrt.And(same, uint64(msg.MsgID) == msgID)
		same = verifrt.And(same, uint32(msg.SeqNo) == seq)
		same = verifrt.And(same, verifrt.SameBytes(msg.Msg, body))
		verifrt.Assert(same, "tamper-accepted-only-as-the-sealed-message")
	}
}

// H_C04_unencrypted: arbitrary bytes to the unencrypted parser: no panic; accepted only if the declared
// length is exactly the rest, msg_id has server parity, and the body is the rest.
func H_C04_unencrypted(maxlen int) {
	n := verifrt.Len(maxlen)
	data := verifrt.Bytes(n)
	var m *Unencrypted
	var err error
	pn := verifrt.Catch(func() { m, err = DeserializeUnencrypted(data) })
	verifrt.Assert(!pn, "unenc-arbitrary-no-panic")
	if pn || err != nil {
		return
	}
	verifrt.Cover("unenc-accepted")
	verifrt.Assert(n >= 20, "unenc-accepted-implies-full-header")
	if n >= 20 {
		verifrt.Assert(rd64(data[8:16])&1 == 1, "unenc-accepted-implies-server-parity")
		verifrt.Assert(int(rd32(data[16:20])) == n-20, "unenc-accepted-implies-exact-length")
		verifrt.Assert(uint64(m.MsgID) == rd64(data[8:16]), "unenc-accepted-msg-id")
		verifrt.Assert(verifrt.SameBytes(m.Msg, data[20:]), "unenc-accepted-body")
	}
}

// H_C04_nokey: the session holds no auth key yet (key exchange still running: GetAuthKey() is empty) or an
// incomplete one of klen < 256 bytes, and a packet arrives that claims to be encrypted - arbitrary bytes, or
// carrying exactly the key id of that empty/short key.  It is refused with an error, never a panic.
func H_C04_nokey(klen, blocks int) {
	key := verifrt.Bytes(klen)
	pkt := verifrt.Bytes(24 + 16*blocks)
	if verifrt.Bool() {
		copy(pkt, refSha1(key)[12:20])
	}
	var err error
	pn := verifrt.Catch(func() { _, err = DeserializeEncrypted(pkt, key) })
	verifrt.Assert(!pn, "nokey-no-panic")
	if !pn && klen == 0 { // nothing can be sealed under no key; a short key is only required not to crash
		verifrt.Assert(err != nil, "nokey-refused")
	}
}
