//go:build verif

package transport

import (
	"context"
	"io"

	"github.com/xelaj/mtproto/internal/verifrt"
)

type fakeMode struct {
	data []byte
	err  error
}

func (f *fakeMode) WriteMsg(msg []byte) error { return nil }
func (f *fakeMode) ReadMsg() ([]byte, error)  { return f.data, f.err }

type stubInformator struct{ key []byte }

func (s *stubInformator) GetSessionID() int64  { return 0 }
func (s *stubInformator) GetSeqNo() int32      { return 0 }
func (s *stubInformator) GetServerSalt() int64 { return 0 }
func (s *stubInformator) GetAuthKey() []byte   { return s.key }

// H_C08_errcode: a four-byte frame is surfaced as the signed transport error code it carries.
func H_C08_errcode() {
	w := verifrt.U32()
	data := []byte{byte(w), byte(w >> 8), byte(w >> 16), byte(w >> 24)}
	t := &transport{mode: &fakeMode{data: data}, m: &stubInformator{key: make([]byte, 256)}}
	var err error
	pn := verifrt.Catch(func() { _, err = t.ReadMsg() })
	verifrt.Assert(!pn, "errcode-no-panic")
	if pn {
		return
	}
	code, ok := err.(ErrCode)
	verifrt.Assert(ok, "four-byte-frame-is-error-code")
	if ok {
		verifrt.Assert(int(code) == int(int32(w)), "error-code-is-signed")
	}
}

// H_C08_eof: end-of-stream and cancellation from the mode come back unwrapped, never as a message.
func H_C08_eof(which int) {
	var e error = io.EOF
	if which == 1 {
		e = context.Canceled
	}
	t := &transport{mode: &fakeMode{err: e}, m: &stubInformator{key: make([]byte, 256)}}
	msg, err := t.ReadMsg()
	verifrt.Assert(err == e, "eof-or-cancel-unwrapped")
	verifrt.Assert(msg == nil, "eof-is-not-a-message")
}

// H_C08_noncode: a frame that is not four bytes long is never reported as a transport error code; an accepted
// unencrypted message has server parity (C04's outer parity check).
func H_C08_noncode(maxlen int) {
	n := verifrt.Len(maxlen)
	verifrt.Assume(n != 4)
	data := verifrt.Bytes(n)
	if n >= 8 { // unencrypted path only: zero key id
		for i := 0; i < 8; i++ {
			data[i] = 0
		}
	}
	t := &transport{mode: &fakeMode{data: data}, m: &stubInformator{key: make([]byte, 256)}}
	var err error
	pn := verifrt.Catch(func() { _, err = t.ReadMsg() })
	verifrt.Assert(!pn, "noncode-no-panic")
	if pn {
		return
	}
	_, isCode := err.(ErrCode)
	verifrt.Assert(!isCode, "only-four-byte-frames-are-error-codes")
	if err == nil {
		verifrt.Cover("accepted")
		verifrt.Assert(n >= 20, "accepted-has-header")
		if n >= 20 {
			verifrt.Assert(data[8]&1 == 1, "accepted-implies-server-parity")
		}
	}
}

// H_C03_isPacketEncrypted: a packet counts as encrypted exactly when it has 8 bytes and they are not all zero.
func H_C03_isPacketEncrypted(maxlen int) {
	n := verifrt.Len(maxlen)
	data := verifrt.Bytes(n)
	var got bool
	pn := verifrt.Catch(func() { got = isPacketEncrypted(data) })
	verifrt.Assert(!pn, "ispacketencrypted-no-panic")
	if pn {
		return
	}
	if n < 8 {
		verifrt.Assert(!got, "short-is-unencrypted")
		return
	}
	var d byte
	for i := 0; i < 8; i++ {
		d |= data[i]
	}
	verifrt.Assert(got == (d != 0), "encrypted-iff-key-id-nonzero")
}
