//go:build verif

package transport

import (
	"context"
	"io"
	"net"


	"github.com/xelaj/mtproto/internal/mode"
	"github.com/xelaj/mtproto/internal/verifrt"
)

// segSource plays the kernel side of a TCP socket: Read hands out the stream in segments - never more than asked
// for, never across a cut point - and io.EOF after the last byte.
type segSource struct {
	data   []byte
	pos    int
	cuts   [2]int // segment boundaries (0 or len(data): none)
	single bool   // one byte per read
	wrote  []byte
}

func (s *segSource) read(b []byte) (int, error) {
	if s.pos >= len(s.data) {
		return 0, io.EOF
	}
	if len(b) == 0 {
		return 0, nil
	}
	end := len(s.data)
	for _, c := range s.cuts {
		if c > s.pos && c < end {
			end = c
		}
	}
	n := end - s.pos
	if s.single {
		n = 1
	}
	if n > len(b) {
		n = len(b)
	}
	copy(b, s.data[s.pos:s.pos+n])
	s.pos += n
	return n, nil
}

func le32(v uint32) []byte { return []byte{byte(v), byte(v >> 8), byte(v >> 16), byte(v >> 24)} }

// H_C08_segmented: k messages of 0..maxw words (symbolic content) and then a four-byte error frame, framed by the
// peer as the format prescribes (restated here), reach the client through the real connection wrapper
// (tcpConn over go-dry's CancelableReader) and the real mode, with the socket's Read/Write replaced inside the
// engine by segSource.  seg 0: unsplit; 1: one byte per read; 2: every pair of cut points (symbolic); 3: the first
// message has 127 words (long abridged header) and the cut points lie within the first 8 bytes.
// Every message arrives intact and in order, the error frame surfaces as the signed code, then end-of-stream.
func H_C08_segmented(variant, k, maxw, seg int) {
	if !verifrt.Symbolic() {
		verifrt.Assert(true, "engine-only-scenario") // the socket methods are hooked inside the engine
		return
	}
	msgs := make([][]byte, k)
	var stream []byte
	for i := range msgs {
		msgs[i] = verifrt.Bytes(4 * verifrt.Len(maxw)) // 0..maxw words: the empty message is a message too
		if seg == 3 && i == 0 {
			// a 127-word message (long abridged header), zero payload with symbolic ends
			msgs[i] = make([]byte, 508)
			msgs[i][0], msgs[i][507] = verifrt.Byte(), verifrt.Byte()
		}
		if w := len(msgs[i]) / 4; variant == int(mode.Abridged) && w >= 127 {
			stream = append(stream, 0x7f, byte(w), byte(w>>8), byte(w>>16))
		} else if variant == int(mode.Abridged) {
			stream = append(stream, byte(len(msgs[i])/4))
		} else {
			stream = append(stream, le32(uint32(len(msgs[i])))...)
		}
		stream = append(stream, msgs[i]...)
	}
	code := verifrt.U32()
	if variant == int(mode.Abridged) {
		stream = append(stream, 1)
	} else {
		stream = append(stream, le32(4)...)
	}
	stream = append(stream, le32(code)...)
	src := &segSource{data: stream, single: seg == 1}
	if seg == 2 {
		src.cuts[0] = verifrt.Choice(len(stream) + 1)
		src.cuts[1] = src.cuts[0] + verifrt.Choice(len(stream)+1-src.cuts[0])
	}
	if seg == 3 { // cut points within the first header and the first payload bytes
		src.cuts[0] = verifrt.Choice(8)
		src.cuts[1] = src.cuts[0] + verifrt.Choice(8-src.cuts[0])
	}
	verifrt.Hook("(*net.conn).Read", func(c interface{}, b []byte) (int, error) { return src.read(b) })
	verifrt.Hook("(*net.conn).Write", func(c interface{}, b []byte) (int, error) {
		src.wrote = append(src.wrote, b...)
		return len(b), nil
	})
	// the connection object is built by the library's own constructor (whatever fields it has are set up the
	// way the library sets them up); only name resolution and the dial are replaced
	tcp := new(net.TCPConn)
	verifrt.Hook("net.ResolveTCPAddr", func(network, address string) (*net.TCPAddr, error) { return &net.TCPAddr{Port: 443}, nil })
	verifrt.Hook("net.DialTCP", func(network string, laddr, raddr *net.TCPAddr) (*net.TCPConn, error) { return tcp, nil })
	conn, cerr := NewTCP(TCPConnConfig{Ctx: context.Background(), Host: "10.0.0.1:443"})
	verifrt.Assert(cerr == nil && conn != nil, "segmented-connection-set-up")
	if cerr != nil || conn == nil {
		return
	}
	var m Mode
	var err error
	crashed := verifrt.Catch(func() {
		m, err = mode.New(mode.Variant(variant), conn)
		verifrt.Assert(err == nil && m != nil, "segmented-mode-set-up")
		if err != nil || m == nil {
			return
		}
		ann := []byte{0xef}
		if variant == int(mode.Intermediate) {
			ann = []byte{0xee, 0xee, 0xee, 0xee}
		}
		verifrt.Assert(verifrt.SameBytes(src.wrote, ann), "segmented-announcement-written")
		for i := range msgs {
			got, err := m.ReadMsg()
			verifrt.Assert(err == nil, "segmented-message-arrives")
			if err != nil {
				return
			}
			verifrt.Assert(verifrt.SameBytes(got, msgs[i]), "segmented-message-intact-and-in-order")
		}
		t := &transport{conn: conn, mode: m, m: &stubInformator{key: make([]byte, 256)}}
		_, err = t.ReadMsg()
		ec, ok := err.(ErrCode)
		verifrt.Assert(ok && int(ec) == int(int32(code)), "segmented-error-frame-is-the-signed-code")
		got, err := t.ReadMsg()
		verifrt.Assert(got == nil && err == io.EOF, "segmented-end-of-stream-is-eof")
	})
	if crashed {
		verifrt.Note("crash: " + verifrt.PanicMsg())
	}
	verifrt.Assert(!crashed, "segmented-no-panic")
}
