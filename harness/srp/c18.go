//go:build verif

package srp

import (
	"crypto/sha256"
	"crypto/sha512"
	"math/big"

	"golang.org/x/crypto/pbkdf2"

	"github.com/xelaj/mtproto/internal/verifrt"
)

// ---- reference (server side), written from core.telegram.org/api/srp

func rH(parts ...[]byte) []byte {
	h := sha256.New()
	for _, p := range parts {
		h.Write(p)
	}
	return h.Sum(nil)
}
func rSH(data, salt []byte) []byte { return rH(salt, data, salt) }
func rPH1(pw, s1, s2 []byte) []byte { return rSH(rSH(pw, s1), s2) }
func rPH2(pw, s1, s2 []byte) []byte {
	return rSH(pbkdf2.Key(rPH1(pw, s1, s2), s1, 100000, 64, sha512.New), s2)
}
func rPad(x *big.Int) []byte { return x.FillBytes(make([]byte, 256)) }
func rBig(b []byte) *big.Int { return new(big.Int).SetBytes(b) }
func rXor(a, b []byte) []byte {
	out := make([]byte, len(a))
	for i := range a {
		out[i] = a[i] ^ b[i]
	}
	return out
}

// H_C18_accept: for the right password, every valid modulus p, salts, server value B (0 < B < p, sent as 256
// bytes) and client secret a, the answer is A = pad(g^a mod p) and
//   M1 = H(H(p) xor H(g) | H(salt1) | H(salt2) | A | B | H(S)),  S = pad(((B - k*v) mod p)^(a + u*x) mod p),
// with x = PH2(password, salt1, salt2), v = g^x, k = H(p | pad g), u = H(A | B) - Telegram's SRP definition.
// That a server holding only v accepts exactly this M1 (the SRP-6a identity (g^b)^(a+ux) = (A v^u)^b for
// B = kv + g^b) is the trusted mathematical fact; modexp, the product u*x and the hashes are uninterpreted.
func H_C18_accept(gSel, pwLen, s1Len, s2Len int) {
	pw := verifrt.String(pwLen)
	s1 := verifrt.Bytes(s1Len)
	s2 := verifrt.Bytes(s2Len)
	P := verifrt.Bytes(256)
	gI := []int32{2, 3, 4, 5, 6, 7}[gSel]
	aBytes := verifrt.Bytes(256)
	srpB := verifrt.Bytes(256)
	// feature hint: bit 0 = S has a leading zero byte, bit 1 = A has one. Symbolically it is tied to the
	// reference values below, so a solver model names the feature its counterexample relies on; natively (where
	// modexp is the real one, not the uninterpreted function of the model) the client secret a is stepped until
	// the real S / A shows the feature, which turns "some input with a short S fails" into a concrete input.
	hint := verifrt.Byte()
	if !verifrt.Symbolic() {
		// concrete vectors (differential validation): bend arbitrary bytes into the precondition; a solver
		// model already satisfies it and is left untouched
		P[0] |= 0x80
		if rBig(srpB).Sign() == 0 {
			srpB[255] = 1
		}
		if rBig(srpB).Cmp(rBig(P)) >= 0 {
			srpB[0] &= 0x7f
		}
	}
	verifrt.Assume(P[0] >= 0x80) // a 2048-bit modulus

	p := rBig(P)
	B := rBig(srpB)
	verifrt.Assume(B.Sign() != 0)
	verifrt.Assume(B.Cmp(p) < 0)
	g := big.NewInt(int64(gI))
	if !verifrt.Symbolic() && hint&3 != 0 {
		c18Search(hint, pw, s1, s2, P, g, srpB, aBytes)
	}

	mp := &ModPow{Salt1: s1, Salt2: s2, G: gI, P: P}
	var ans *SrpAnswer
	var err error
	pn := verifrt.Catch(func() { ans, err = getInputCheckPassword(pw, srpB, mp, aBytes) })
	verifrt.Assert(!pn, "srp-no-panic")
	if pn {
		return
	}
	verifrt.Assert(err == nil, "valid-parameters-accepted")
	if err != nil {
		return
	}
	verifrt.Assert(ans != nil, "non-empty-password-gives-an-answer")
	if ans == nil {
		return
	}
	// reference
	x := rBig(rPH2([]byte(pw), s1, s2))
	v := new(big.Int).Exp(g, x, p)
	k := rBig(rH(P, rPad(g)))
	kv := new(big.Int).Mul(k, v)
	kv.Mod(kv, p)
	a := rBig(aBytes)
	A := new(big.Int).Exp(g, a, p)
	verifrt.Assert(len(ans.GA) == 256, "A-is-256-bytes")
	verifrt.Assert(verifrt.SameBytes(ans.GA, rPad(A)), "A-is-g^a-padded")
	u := rBig(rH(rPad(A), rPad(B)))
	t := new(big.Int).Sub(B, kv)
	if t.Sign() < 0 {
		t.Add(t, p)
	}
	ux := new(big.Int).Mul(u, x)
	ux.Add(ux, a)
	S := new(big.Int).Exp(t, ux, p)
	M1 := rH(rXor(rH(P), rH(rPad(g))), rH(s1), rH(s2), rPad(A), rPad(B), rH(rPad(S)))
	if verifrt.Symbolic() {
		var f byte
		if len(S.Bytes()) < 256 {
			f |= 1
		}
		if len(A.Bytes()) < 256 {
			f |= 2
		}
		verifrt.Assume(hint&3 == f)
	}
	verifrt.Observe("M1", ans.M1)
	verifrt.Assert(len(ans.M1) == 32, "M1-is-32-bytes")
	verifrt.Assert(verifrt.SameBytes(ans.M1, M1), "M1-as-defined")
}

// c18Search steps the client secret (its low 16 bits) until the real S (hint bit 0) or else A (bit 1) starts
// with a zero byte; gives up silently after 4096 steps.
func c18Search(hint byte, pw string, s1, s2, P []byte, g *big.Int, srpB, aBytes []byte) {
	p := rBig(P)
	B := rBig(srpB)
	x := rBig(rPH2([]byte(pw), s1, s2))
	v := new(big.Int).Exp(g, x, p)
	k := rBig(rH(P, rPad(g)))
	kv := new(big.Int).Mul(k, v)
	kv.Mod(kv, p)
	t := new(big.Int).Sub(B, kv)
	if t.Sign() < 0 {
		t.Add(t, p)
	}
	for i := 0; i < 4096; i++ {
		a := rBig(aBytes)
		A := new(big.Int).Exp(g, a, p)
		ok := false
		if hint&1 != 0 {
			u := rBig(rH(rPad(A), rPad(B)))
			ux := new(big.Int).Mul(u, x)
			ux.Add(ux, a)
			ok = rPad(new(big.Int).Exp(t, ux, p))[0] == 0
		} else {
			ok = rPad(A)[0] == 0
		}
		if ok {
			return
		}
		aBytes[255]++
		if aBytes[255] == 0 {
			aBytes[254]++
		}
	}
}

// H_C18_refuse: empty password gives the "no password" answer; an out-of-range server value is refused.
func H_C18_refuse(kind int) {
	s1 := verifrt.Bytes(2)
	s2 := verifrt.Bytes(2)
	P := verifrt.Bytes(256)
	verifrt.Assume(P[0] >= 0x80)
	mp := &ModPow{Salt1: s1, Salt2: s2, G: 3, P: P}
	p := rBig(P)
	aBytes := verifrt.Bytes(256)
	var srpB []byte
	pw := "pw"
	switch kind {
	case 0:
		pw = ""
		srpB = verifrt.Bytes(256)
	case 1: // B = 0
		srpB = make([]byte, 256)
	case 2: // B = p
		srpB = rPad(p)
	case 3: // B = p + 1 (when it still fits 256 bytes)
		q := new(big.Int).Add(p, big.NewInt(1))
		verifrt.Assume(P[255] != 0xff)
		srpB = rPad(q)
	case 4: // too short
		srpB = verifrt.Bytes(240 + verifrt.Len(7))
	case 5: // too long
		srpB = verifrt.Bytes(257)
	}
	var ans *SrpAnswer
	var err error
	pn := verifrt.Catch(func() { ans, err = getInputCheckPassword(pw, srpB, mp, aBytes) })
	verifrt.Assert(!pn, "srp-refuse-no-panic")
	if pn {
		return
	}
	if kind == 0 {
		verifrt.Assert(ans == nil && err == nil, "empty-password-no-password-answer")
		return
	}
	verifrt.Assert(err != nil, "out-of-range-B-refused")
	verifrt.Assert(ans == nil, "refused-gives-no-answer")
}
