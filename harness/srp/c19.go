//go:build verif

package srp

import "github.com/xelaj/mtproto/internal/verifrt"

// H_C19_srp: the SRP ephemeral a (seen through A = g^a) comes from the OS random source only.
func H_C19_srp() {
	P := verifrt.Bytes(256)
	verifrt.Assume(P[0] >= 0x80)
	srpB := verifrt.Bytes(256)
	B := rBig(srpB)
	verifrt.Assume(B.Sign() != 0)
	verifrt.Assume(B.Cmp(rBig(P)) < 0)
	mp := &ModPow{Salt1: []byte{1}, Salt2: []byte{2}, G: 3, P: P}
	var ans *SrpAnswer
	var err error
	pn := verifrt.Catch(func() { ans, err = GetInputCheckPassword("pw", srpB, mp) })
	verifrt.Assert(!pn && err == nil && ans != nil, "srp-answer-computed")
	if pn || err != nil || ans == nil {
		return
	}
	src := verifrt.Sources(ans.GA)
	verifrt.Note("SRP A depends on: [" + src + "]")
	verifrt.Assert(src == "crypto,input", "srp-ephemeral-drawn-from-the-OS-random-source-only")
	verifrt.Assert(verifrt.NonConstant(ans.GA), "srp-ephemeral-is-not-a-constant")
}
