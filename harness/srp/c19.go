//go:build verif

package srp

import "github.com/xelaj/mtproto/internal/verifrt"

// H_C19_srp: the SRP ephemeral a (seen through A = g^a) comes from the OS random source only.
func H_C19_srp() {
	P := verifrt.Bytes(256)
	verifrt.Assume(P[0] >= 0x80)
	srpB := verifrt.Bytes(256)
	B := rBig(srpB)
	verifrt.Assume(B.Sign() != 0)
	verifrt.Assume(B.Cmp(rBig(P)) < 0)
	mp := &ModPow{Salt1: []byte{1}, Salt2: []byte{2}, G: 3, P: P}
	var ans *SrpAnswer
	var err error
	pn := verifrt.Catch(func() { ans, err = GetInputCheckPassword("pw", srpB, mp) })
	verifrt.Assert(!pn && err == nil && ans != nil, "srp-answer-computed")
	if pn || err != nil || ans == nil {
		return
	}
	src := verifrt.Sources(ans.GA)
	verifrt.Note("SRP A depends on: [" + src + "]")
	verifrt.Assert(src == "crypto,input", "srp-ephemeral-drawn-from-the-OS-random-source-only")
	verifrt.Assert(verifrt.NonConstant(ans.GA), "srp-ephemeral-is-not-a-constant")
}

// H_C19_srp_source_failure: as H_C19_srp with an OS random source that may fail at any draw: refusal (panic or
// error) or an ephemeral that still comes from the OS source only.
func H_C19_srp_source_failure() {
	verifrt.RandMayFail()
	P := verifrt.Bytes(256)
	verifrt.Assume(P[0] >= 0x80)
	srpB := verifrt.Bytes(256)
	B := rBig(srpB)
	verifrt.Assume(B.Sign() != 0)
	verifrt.Assume(B.Cmp(rBig(P)) < 0)
	mp := &ModPow{Salt1: []byte{1}, Salt2: []byte{2}, G: 3, P: P}
	var ans *SrpAnswer
	var err error
	pn := verifrt.Catch(func() { ans, err = GetInputCheckPassword("pw", srpB, mp) })
	if pn || err != nil || ans == nil {
		verifrt.Cover("refused")
		verifrt.Assert(true, "failing-source-is-refused-or-not-used")
		return
	}
	verifrt.Cover("delivered")
	src := verifrt.Sources(ans.GA)
	verifrt.Note("SRP A depends on: [" + src + "]")
	verifrt.Assert(src == "crypto,input", "srp-failing-source-never-replaced-by-another-generator")
}
