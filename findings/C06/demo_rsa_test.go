//go:build verif

package math

// Native demonstration of the DoRSAencrypt defect (run with go test -overlay, see findings/C06/README):
// searches for a 255-byte block whose RSA result starts with a zero byte and compares the returned 256 bytes
// with the fixed-width big-endian encoding of the result.
import (
	"bytes"
	"crypto/rand"
	"crypto/rsa"
	"math/big"
	"testing"
)

func TestDemoRSALeadingZero(t *testing.T) {
	key, _ := rsa.GenerateKey(rand.Reader, 2048)
	for i := 0; i < 100000; i++ {
		block := make([]byte, 255)
		rand.Read(block)
		c := new(big.Int).Exp(new(big.Int).SetBytes(block), big.NewInt(int64(key.E)), key.N)
		want := c.FillBytes(make([]byte, 256))
		if want[0] != 0 {
			continue
		}
		got := DoRSAencrypt(block, &key.PublicKey)
		if !bytes.Equal(got, want) {
			t.Fatalf("after %d tries: ciphertext with a leading zero byte is left-aligned: got %x..., want %x...", i, got[:4], want[:4])
		}
		return
	}
}
