package objects

// Demonstration for C09 (kept under /verif/findings; copy into internal/mtproto/objects to run):
// an rpc_result whose bare Vector<long> answer is gzip-packed cannot be decoded although the caller declared the
// vector type, because gzip_packed decodes its content without the decoder's type hints.

import (
	"bytes"
	"compress/gzip"
	"encoding/binary"
	"reflect"
	"testing"

	"github.com/xelaj/mtproto/internal/encoding/tl"
)

func le32(v uint32) []byte { b := make([]byte, 4); binary.LittleEndian.PutUint32(b, v); return b }
func le64(v uint64) []byte { b := make([]byte, 8); binary.LittleEndian.PutUint64(b, v); return b }

func tlBytes(b []byte) []byte {
	var out []byte
	if len(b) < 254 {
		out = append(out, byte(len(b)))
	} else {
		out = append(out, 0xfe, byte(len(b)), byte(len(b)>>8), byte(len(b)>>16))
	}
	out = append(out, b...)
	for len(out)%4 != 0 {
		out = append(out, 0)
	}
	return out
}

func TestFindingGzipPackedVectorResult(t *testing.T) {
	vec := append(le32(0x1cb5c415), le32(2)...)
	vec = append(vec, le64(7)...)
	vec = append(vec, le64(9)...)
	var buf bytes.Buffer
	w := gzip.NewWriter(&buf)
	w.Write(vec)
	w.Close()
	packed := append(le32(0x3072cfa1), tlBytes(buf.Bytes())...)
	hint := reflect.TypeOf([]int64{})

	plain := append(append(le32(0xf35c6d01), le64(1234)...), vec...)
	if _, err := tl.DecodeUnknownObject(plain, hint); err != nil {
		t.Fatalf("plain vector result: %v", err)
	}
	gz := append(append(le32(0xf35c6d01), le64(1234)...), packed...)
	obj, err := tl.DecodeUnknownObject(gz, hint)
	if err != nil {
		t.Fatalf("gzip-packed vector result: %v", err)
	}
	inner := obj.(*RpcResult).Obj.(*GzipPacked).Obj
	if got := tl.UnwrapNativeTypes(inner); !reflect.DeepEqual(got, []int64{7, 9}) {
		t.Fatalf("gzip-packed vector result decoded to %#v", got)
	}
}
