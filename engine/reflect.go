package main

import (
	"fmt"
	"go/types"
	"strconv"
	"strings"

	"golang.org/x/tools/go/ssa"
)

var rtypeT = types.NewNamed(types.NewTypeName(0, nil, "rtype", nil), types.NewStruct(nil, nil), nil)

func rtypeV(t types.Type) Value { return Iface{T: rtypeT, V: RType{t}} }

func kindOf(t types.Type) int {
	switch u := t.Underlying().(type) {
	case *types.Basic:
		switch u.Kind() {
		case types.Bool:
			return 1
		case types.Int:
			return 2
		case types.Int8:
			return 3
		case types.Int16:
			return 4
		case types.Int32:
			return 5
		case types.Int64:
			return 6
		case types.Uint:
			return 7
		case types.Uint8:
			return 8
		case types.Uint16:
			return 9
		case types.Uint32:
			return 10
		case types.Uint64:
			return 11
		case types.Uintptr:
			return 12
		case types.Float32:
			return 13
		case types.Float64:
			return 14
		case types.String:
			return 24
		case types.UnsafePointer:
			return 26
		}
	case *types.Array:
		return 17
	case *types.Chan:
		return 18
	case *types.Signature:
		return 19
	case *types.Interface:
		return 20
	case *types.Map:
		return 21
	case *types.Pointer:
		return 22
	case *types.Slice:
		return 23
	case *types.Struct:
		return 25
	}
	unsupported("kindOf %v", t)
	return 0
}

func (v RValue) load() Value {
	if v.P != nil {
		return copyVal(*v.P)
	}
	return v.V
}

func (e *Engine) rpanic(s string) { panic(goPanic{Iface{T: types.Typ[types.String], V: "reflect: " + s}}) }

func (e *Engine) isZero(t types.Type, v Value) Term {
	switch x := v.(type) {
	case Term:
		if x.W == 0 {
			return Not(x)
		}
		if b, ok := t.Underlying().(*types.Basic); ok && b.Info()&types.IsFloat != 0 {
			return Eq(And(x, BVu(64, 0x7fffffffffffffff)), BV(64, 0))
		}
		return Eq(x, BV(x.W, 0))
	case string:
		return Bool(x == "")
	case SymStr:
		return Bool(len(x) == 0)
	case *Value:
		return Bool(x == nil)
	case Iface:
		return Bool(x.T == nil)
	case Slice:
		return Bool(x.a == nil)
	case *MapV:
		return Bool(x == nil)
	case Struct:
		st := t.Underlying().(*types.Struct)
		r := Bool(true)
		for i := range x {
			r = And(r, e.isZero(st.Field(i).Type(), x[i]))
		}
		return r
	}
	unsupported("isZero %T", v)
	return Term{}
}

func structField(st *types.Struct, i int, tag string) Value {
	f := st.Field(i)
	return Struct{f.Name(), "", rtypeV(f.Type()), tag, BV(64, 0), Slice{}, Bool(f.Embedded())}
}

func init() {
	R := func(name string, h intrinsic) { intrinsics[name] = h }
	rv := func(a Value) RValue { return a.(RValue) }
	R("reflect.ValueOf", func(e *Engine, fr *frame, a []Value) Value {
		i := a[0].(Iface)
		if i.T == nil {
			return RValue{}
		}
		return RValue{T: i.T, V: i.V}
	})
	R("reflect.TypeOf", func(e *Engine, fr *frame, a []Value) Value {
		i := a[0].(Iface)
		if i.T == nil {
			return Iface{}
		}
		return rtypeV(i.T)
	})
	R("(reflect.Value).Interface", func(e *Engine, fr *frame, a []Value) Value {
		v := rv(a[0])
		if v.T == nil {
			e.rpanic("call of reflect.Value.Interface on zero Value")
		}
		if _, ok := v.T.Underlying().(*types.Interface); ok {
			return v.load()
		}
		return Iface{T: v.T, V: v.load()}
	})
	R("(reflect.Value).Type", func(e *Engine, fr *frame, a []Value) Value { return rtypeV(rv(a[0]).T) })
	R("(reflect.Value).Kind", func(e *Engine, fr *frame, a []Value) Value {
		if rv(a[0]).T == nil {
			return BV(64, 0)
		}
		return BV(64, int64(kindOf(rv(a[0]).T)))
	})
	R("(reflect.Value).IsValid", func(e *Engine, fr *frame, a []Value) Value { return Bool(rv(a[0]).T != nil) })
	R("(reflect.Value).Uint", func(e *Engine, fr *frame, a []Value) Value { return ZExt(rv(a[0]).load().(Term), 64) })
	R("(reflect.Value).Int", func(e *Engine, fr *frame, a []Value) Value { return SExt(rv(a[0]).load().(Term), 64) })
	R("(reflect.Value).Float", func(e *Engine, fr *frame, a []Value) Value { return rv(a[0]).load() })
	R("(reflect.Value).Bool", func(e *Engine, fr *frame, a []Value) Value { return rv(a[0]).load() })
	R("(reflect.Value).String", func(e *Engine, fr *frame, a []Value) Value {
		v := rv(a[0])
		if isString(v.T) {
			return v.load()
		}
		return "<" + v.T.String() + " Value>"
	})
	R("(reflect.Value).Addr", func(e *Engine, fr *frame, a []Value) Value {
		v := rv(a[0])
		if !v.Addr || v.P == nil {
			e.rpanic("reflect.Value.Addr of unaddressable value")
		}
		return RValue{T: types.NewPointer(v.T), V: v.P}
	})
	R("(reflect.Value).CanAddr", func(e *Engine, fr *frame, a []Value) Value { return Bool(rv(a[0]).Addr) })
	R("(reflect.Value).IsNil", func(e *Engine, fr *frame, a []Value) Value {
		v := rv(a[0])
		switch x := v.load().(type) {
		case *Value:
			return Bool(x == nil)
		case Iface:
			return Bool(x.T == nil)
		case Slice:
			return Bool(x.a == nil)
		case *MapV:
			return Bool(x == nil)
		}
		e.rpanic("IsNil of " + v.T.String())
		return nil
	})
	elem := func(e *Engine, v RValue) Value {
		switch u := v.T.Underlying().(type) {
		case *types.Pointer:
			p := v.load().(*Value)
			if p == nil {
				return RValue{}
			}
			return RValue{T: u.Elem(), P: p, Addr: true}
		case *types.Interface:
			i := v.load().(Iface)
			if i.T == nil {
				return RValue{}
			}
			return RValue{T: i.T, V: i.V}
		}
		e.rpanic("call of reflect.Value.Elem on " + v.T.String() + " Value")
		return nil
	}
	R("(reflect.Value).Elem", func(e *Engine, fr *frame, a []Value) Value { return elem(e, rv(a[0])) })
	R("reflect.Indirect", func(e *Engine, fr *frame, a []Value) Value {
		v := rv(a[0])
		if _, ok := v.T.Underlying().(*types.Pointer); ok {
			return elem(e, v)
		}
		return v
	})
	R("(reflect.Value).NumField", func(e *Engine, fr *frame, a []Value) Value {
		st, ok := rv(a[0]).T.Underlying().(*types.Struct)
		if !ok {
			e.rpanic("NumField of non-struct")
		}
		return BV(64, int64(st.NumFields()))
	})
	R("(reflect.Value).Field", func(e *Engine, fr *frame, a []Value) Value {
		v := rv(a[0])
		st, ok := v.T.Underlying().(*types.Struct)
		if !ok {
			e.rpanic("Field of non-struct")
		}
		i := e.index(a[1].(Term), st.NumFields())
		if v.P != nil {
			s := (*v.P).(Struct)
			return RValue{T: st.Field(i).Type(), P: &s[i], Addr: v.Addr}
		}
		return RValue{T: st.Field(i).Type(), V: v.V.(Struct)[i]}
	})
	R("(reflect.Value).IsZero", func(e *Engine, fr *frame, a []Value) Value {
		v := rv(a[0])
		return e.isZero(v.T, v.load())
	})
	R("(reflect.Value).Len", func(e *Engine, fr *frame, a []Value) Value {
		switch x := rv(a[0]).load().(type) {
		case Slice:
			return BV(64, int64(len(x.a)))
		case string, SymStr:
			return BV(64, int64(strLen(x)))
		case Array:
			return BV(64, int64(len(x)))
		}
		e.rpanic("Len")
		return nil
	})
	R("(reflect.Value).Index", func(e *Engine, fr *frame, a []Value) Value {
		v := rv(a[0])
		switch x := v.load().(type) {
		case Slice:
			i := e.index(a[1].(Term), len(x.a))
			return RValue{T: v.T.Underlying().(*types.Slice).Elem(), P: &x.a[i], Addr: true}
		}
		e.rpanic("Index")
		return nil
	})
	R("(reflect.Value).Set", func(e *Engine, fr *frame, a []Value) Value {
		v, x := rv(a[0]), rv(a[1])
		if !v.Addr || v.P == nil {
			e.rpanic("reflect.Value.Set using unaddressable value")
		}
		val := x.load()
		if _, ok := v.T.Underlying().(*types.Interface); ok {
			if _, isI := x.T.Underlying().(*types.Interface); !isI {
				val = Iface{T: x.T, V: val}
			}
		} else if !types.Identical(v.T, x.T) {
			e.rpanic("Set: value of type " + x.T.String() + " is not assignable to type " + v.T.String())
		}
		store(v.P, val)
		return nil
	})
	R("(reflect.Value).Convert", func(e *Engine, fr *frame, a []Value) Value {
		v := rv(a[0])
		to := a[1].(Iface).V.(RType).T
		if it, ok := to.Underlying().(*types.Interface); ok {
			if _, isI := v.T.Underlying().(*types.Interface); isI {
				return RValue{T: to, V: v.load()}
			}
			if types.Implements(v.T, it) {
				return RValue{T: to, V: Iface{T: v.T, V: v.load()}}
			}
			e.rpanic("reflect.Value.Convert: value of type " + v.T.String() + " cannot be converted to type " + to.String())
		}
		if types.ConvertibleTo(v.T, to) {
			if types.Identical(v.T.Underlying(), to.Underlying()) {
				return RValue{T: to, V: v.load()}
			}
			return RValue{T: to, V: e.convert(v.T, to, v.load())}
		}
		e.rpanic("reflect.Value.Convert: value of type " + v.T.String() + " cannot be converted to type " + to.String())
		return nil
	})
	R("reflect.New", func(e *Engine, fr *frame, a []Value) Value {
		t := a[0].(Iface).V.(RType).T
		cell := zero(t)
		return RValue{T: types.NewPointer(t), V: &cell}
	})
	R("reflect.SliceOf", func(e *Engine, fr *frame, a []Value) Value {
		return rtypeV(types.NewSlice(a[0].(Iface).V.(RType).T))
	})
	R("reflect.MakeSlice", func(e *Engine, fr *frame, a []Value) Value {
		t := a[0].(Iface).V.(RType).T
		n := a[1].(Term)
		el := t.Underlying().(*types.Slice).Elem()
		esz := int(sizes.Sizeof(el))
		if esz < 1 {
			esz = 1
		}
		if !n.IsConst() {
			if e.branch(Slt(n, BV(64, 0))) {
				e.rpanic("reflect.MakeSlice: negative len")
			}
		} else if n.Int() < 0 {
			e.rpanic("reflect.MakeSlice: negative len")
		}
		nn := e.allocSize(n, esz, "reflect.MakeSlice")
		s := make([]Value, nn)
		for i := range s {
			s[i] = zero(el)
		}
		return RValue{T: t, V: Slice{s}}
	})
	// reflect.Type methods (invoked through interface)
	R("reflect.Type.Kind", func(e *Engine, fr *frame, a []Value) Value { return BV(64, int64(kindOf(a[0].(RType).T))) })
	R("reflect.Type.String", func(e *Engine, fr *frame, a []Value) Value { return reflectTypeString(a[0].(RType).T) })
	R("reflect.Type.Elem", func(e *Engine, fr *frame, a []Value) Value {
		switch u := a[0].(RType).T.Underlying().(type) {
		case *types.Pointer:
			return rtypeV(u.Elem())
		case *types.Slice:
			return rtypeV(u.Elem())
		case *types.Array:
			return rtypeV(u.Elem())
		case *types.Map:
			return rtypeV(u.Elem())
		}
		e.rpanic("reflect: Elem of invalid type " + a[0].(RType).T.String())
		return nil
	})
	R("reflect.Type.NumField", func(e *Engine, fr *frame, a []Value) Value {
		st, ok := a[0].(RType).T.Underlying().(*types.Struct)
		if !ok {
			e.rpanic("reflect: NumField of non-struct type " + a[0].(RType).T.String())
		}
		return BV(64, int64(st.NumFields()))
	})
	R("reflect.Type.Field", func(e *Engine, fr *frame, a []Value) Value {
		st, ok := a[0].(RType).T.Underlying().(*types.Struct)
		if !ok {
			e.rpanic("reflect: Field of non-struct type")
		}
		i := e.index(a[1].(Term), st.NumFields())
		return structField(st, i, st.Tag(i))
	})
	R("reflect.Type.ConvertibleTo", func(e *Engine, fr *frame, a []Value) Value {
		from, to := a[0].(RType).T, a[1].(Iface).V.(RType).T
		if it, ok := to.Underlying().(*types.Interface); ok {
			return Bool(types.Implements(from, it))
		}
		return Bool(types.ConvertibleTo(from, to))
	})
	R("reflect.Type.Implements", func(e *Engine, fr *frame, a []Value) Value {
		it := a[1].(Iface).V.(RType).T.Underlying().(*types.Interface)
		return Bool(types.Implements(a[0].(RType).T, it))
	})

	// concrete-only native fallbacks for string helpers
	pkgStubs["strings"] = func(e *Engine, f *ssa.Function, a []Value) Value {
		allConc := true
		for _, x := range a {
			switch x.(type) {
			case string:
			case Term:
				if !x.(Term).IsConst() {
					allConc = false
				}
			default:
				allConc = false
			}
		}
		if allConc {
			s := func(i int) string { return a[i].(string) }
			switch f.Name() {
			case "HasPrefix":
				return Bool(strings.HasPrefix(s(0), s(1)))
			case "HasSuffix":
				return Bool(strings.HasSuffix(s(0), s(1)))
			case "TrimPrefix":
				return strings.TrimPrefix(s(0), s(1))
			case "TrimSuffix":
				return strings.TrimSuffix(s(0), s(1))
			case "TrimSpace":
				return strings.TrimSpace(s(0))
			case "Contains":
				return Bool(strings.Contains(s(0), s(1)))
			case "Index":
				return BV(64, int64(strings.Index(s(0), s(1))))
			case "IndexByte":
				return BV(64, int64(strings.IndexByte(s(0), byte(a[1].(Term).Int()))))
			case "Split":
				parts := strings.Split(s(0), s(1))
				out := make([]Value, len(parts))
				for i := range parts {
					out[i] = parts[i]
				}
				return Slice{out}
			}
		}
		return e.runFunction(f, a, nil)
	}
	pkgStubs["strconv"] = func(e *Engine, f *ssa.Function, a []Value) Value {
		if s, ok := a[0].(string); ok {
			switch f.Name() {
			case "Atoi":
				n, err := strconv.Atoi(s)
				if err != nil {
					return Tuple{BV(64, 0), mkErr(err.Error(), nil)}
				}
				return Tuple{BV(64, int64(n)), Iface{}}
			case "Unquote":
				r, err := strconv.Unquote(s)
				if err != nil {
					return Tuple{"", mkErr(err.Error(), nil)}
				}
				return Tuple{r, Iface{}}
			}
		}
		return e.runFunction(f, a, nil)
	}
}

var _ = fmt.Sprint

// reflectTypeString mimics reflect.Type.String: named types are qualified by package *name*, not path
func reflectTypeString(t types.Type) string {
	return types.TypeString(t, func(p *types.Package) string { return p.Name() })
}
