package main

import (
	"go/types"
)

func init() {
	R := func(name string, h intrinsic) { intrinsics[name] = h }
	rv := func(a Value) RValue { return a.(RValue) }
	setter := func(kindOK func(t types.Type) bool, conv func(e *Engine, t types.Type, x Value) Value) intrinsic {
		return func(e *Engine, fr *frame, a []Value) Value {
			v := rv(a[0])
			if !v.Addr || v.P == nil {
				e.rpanic("reflect.Value.Set* using unaddressable value")
			}
			if !kindOK(v.T) {
				e.rpanic("reflect: call of Set* on " + v.T.String() + " Value")
			}
			store(v.P, conv(e, v.T, a[1]))
			return nil
		}
	}
	isKind := func(ks ...int) func(t types.Type) bool {
		return func(t types.Type) bool {
			k := kindOf(t)
			for _, x := range ks {
				if k == x {
					return true
				}
			}
			return false
		}
	}
	R("(reflect.Value).SetBool", setter(isKind(1), func(e *Engine, t types.Type, x Value) Value { return x }))
	R("(reflect.Value).SetInt", setter(isKind(2, 3, 4, 5, 6), func(e *Engine, t types.Type, x Value) Value {
		w, _ := intW(t)
		return SExt(x.(Term), w)
	}))
	R("(reflect.Value).SetUint", setter(isKind(7, 8, 9, 10, 11, 12), func(e *Engine, t types.Type, x Value) Value {
		w, _ := intW(t)
		return ZExt(x.(Term), w)
	}))
	R("(reflect.Value).SetFloat", setter(isKind(13, 14), func(e *Engine, t types.Type, x Value) Value { return x }))
	R("(reflect.Value).SetString", setter(isKind(24), func(e *Engine, t types.Type, x Value) Value { return x }))
	R("(reflect.Value).SetBytes", setter(isKind(23), func(e *Engine, t types.Type, x Value) Value { return x }))
	R("(reflect.Value).Bytes", func(e *Engine, fr *frame, a []Value) Value {
		v := rv(a[0])
		s, ok := v.load().(Slice)
		if !ok {
			e.rpanic("reflect.Value.Bytes of non-byte slice")
		}
		return s
	})
	R("(reflect.Value).CanSet", func(e *Engine, fr *frame, a []Value) Value { return Bool(rv(a[0]).Addr) })
	R("(reflect.Value).CanInterface", func(e *Engine, fr *frame, a []Value) Value { return Bool(rv(a[0]).T != nil) })
	R("(reflect.Value).Cap", func(e *Engine, fr *frame, a []Value) Value {
		if s, ok := rv(a[0]).load().(Slice); ok {
			return BV(64, int64(cap(s.a)))
		}
		e.rpanic("Cap")
		return nil
	})
	R("(reflect.Value).Pointer", func(e *Engine, fr *frame, a []Value) Value { return BV(64, 0xdead0000) })
	R("reflect.Zero", func(e *Engine, fr *frame, a []Value) Value {
		t := a[0].(Iface).V.(RType).T
		return RValue{T: t, V: zero(t)}
	})
	R("reflect.PtrTo", func(e *Engine, fr *frame, a []Value) Value { return rtypeV(types.NewPointer(a[0].(Iface).V.(RType).T)) })
	R("reflect.PointerTo", func(e *Engine, fr *frame, a []Value) Value { return rtypeV(types.NewPointer(a[0].(Iface).V.(RType).T)) })
	R("reflect.Type.Name", func(e *Engine, fr *frame, a []Value) Value {
		if n, ok := a[0].(RType).T.(*types.Named); ok {
			return n.Obj().Name()
		}
		if b, ok := a[0].(RType).T.(*types.Basic); ok {
			return b.Name()
		}
		return ""
	})
	R("reflect.Type.PkgPath", func(e *Engine, fr *frame, a []Value) Value {
		if n, ok := a[0].(RType).T.(*types.Named); ok && n.Obj().Pkg() != nil {
			return n.Obj().Pkg().Path()
		}
		return ""
	})
	R("reflect.Type.AssignableTo", func(e *Engine, fr *frame, a []Value) Value {
		return Bool(types.AssignableTo(a[0].(RType).T, a[1].(Iface).V.(RType).T))
	})
	R("reflect.Type.Comparable", func(e *Engine, fr *frame, a []Value) Value { return Bool(types.Comparable(a[0].(RType).T)) })
	R("reflect.Type.Len", func(e *Engine, fr *frame, a []Value) Value {
		if arr, ok := a[0].(RType).T.Underlying().(*types.Array); ok {
			return BV(64, arr.Len())
		}
		e.rpanic("reflect: Len of non-array type")
		return nil
	})
	R("reflect.Type.NumMethod", func(e *Engine, fr *frame, a []Value) Value {
		return BV(64, int64(e.prog.MethodSets.MethodSet(a[0].(RType).T).Len()))
	})

	// sort.Slice / SliceStable / Sort on engine slices with a (concrete-result) less closure: insertion sort
	sortSlice := func(e *Engine, fr *frame, a []Value) Value {
		x := a[0].(Iface)
		s, ok := x.V.(Slice)
		if !ok {
			unsupported("sort.Slice of %T", x.V)
		}
		less := a[1]
		n := len(s.a)
		// sort a permutation, then apply it (less takes indices into the *current* slice state, so we swap in place)
		for i := 1; i < n; i++ {
			for j := i; j > 0; j-- {
				r := e.callFn(fr, less, []Value{BV(64, int64(j)), BV(64, int64(j-1))}, nil).(Term)
				if !e.branch(r) {
					break
				}
				tj, tp := copyVal(s.a[j]), copyVal(s.a[j-1])
				store(&s.a[j], tp)
				store(&s.a[j-1], tj)
			}
		}
		return nil
	}
	R("sort.Slice", sortSlice)
	R("sort.SliceStable", sortSlice)
	R("sort.Strings", func(e *Engine, fr *frame, a []Value) Value {
		s := a[0].(Slice)
		n := len(s.a)
		for i := 1; i < n; i++ {
			for j := i; j > 0; j-- {
				x, okx := s.a[j].(string)
				y, oky := s.a[j-1].(string)
				if !okx || !oky {
					unsupported("sort.Strings on symbolic strings")
				}
				if !(x < y) {
					break
				}
				s.a[j], s.a[j-1] = s.a[j-1], s.a[j]
			}
		}
		return nil
	})
	R("math.Float64bits", func(e *Engine, fr *frame, a []Value) Value { return a[0] })
	R("math.Float64frombits", func(e *Engine, fr *frame, a []Value) Value { return a[0] })
}
