package main

import (
	"fmt"
	"go/types"

	"golang.org/x/tools/go/ssa"
)

// Cooperative threads: every Go statement of the executed code becomes an engine thread backed by a real
// goroutine; exactly one of them runs at a time (baton hand-off).  A thread runs until it blocks (channel,
// mutex, WaitGroup), finishes, or reaches verifrt.Yield, where the next thread is a symbolic scheduling
// decision (forked over the runnable threads).  Otherwise the choice is deterministic (lowest id first).

type thread struct {
	id      int
	wake    chan struct{}
	done    bool
	blocked bool
	ready   func() bool // for blocked threads: can it proceed now?
	what    string
}

type threadKill struct{}

type sched struct {
	threads  []*thread
	cur      *thread
	killing  bool
	abort    interface{} // engine-level abort raised inside a non-main thread
	crash    *goPanic    // Go panic that escaped a non-main goroutine (= process death)
	switches int
	preempts int
	deadlock bool
}

func (e *Engine) initSched() {
	main := &thread{id: 0, wake: make(chan struct{})}
	e.sch = &sched{threads: []*thread{main}, cur: main}
}

// killThreads ends every live non-main thread of the path (called when the harness function returns/aborts).
func (e *Engine) killThreads() {
	s := e.sch
	if s == nil {
		return
	}
	s.killing = true
	for _, t := range s.threads[1:] {
		if !t.done {
			fin := make(chan struct{})
			t.ready = nil
			e.killAck = fin
			t.wake <- struct{}{}
			<-fin
		}
	}
	e.sch = nil
}

func (e *Engine) spawn(fr *frame, fn Value, args []Value) {
	s := e.sch
	t := &thread{id: len(s.threads), wake: make(chan struct{})}
	s.threads = append(s.threads, t)
	go func() {
		<-t.wake
		defer func() {
			r := recover()
			t.done = true
			if _, ok := r.(threadKill); ok || s.killing {
				if e.killAck != nil {
					close(e.killAck)
					e.killAck = nil
				}
				return
			}
			if r != nil {
				if gp, ok := r.(goPanic); ok {
					if s.crash == nil {
						s.crash = &gp
					}
				} else if s.abort == nil {
					s.abort = r
				}
			}
			// hand the baton on: main must see aborts/crashes as soon as possible
			e.resumeSomeone(t)
		}()
		if s.killing {
			panic(threadKill{})
		}
		e.callFn(fr, fn, args, nil)
	}()
}

// resumeSomeone is called by a finishing thread: wake the next thread (main first on abort/crash).
func (e *Engine) resumeSomeone(from *thread) {
	s := e.sch
	if s == nil {
		return
	}
	if s.abort != nil || s.crash != nil {
		s.cur = s.threads[0]
		s.threads[0].wake <- struct{}{}
		return
	}
	n := e.pickNext(from, false)
	if n == nil {
		// nobody can run: deadlock; main handles it
		s.cur = s.threads[0]
		s.deadlock = true
		s.threads[0].wake <- struct{}{}
		return
	}
	s.cur = n
	n.wake <- struct{}{}
}

func (t *thread) canRun() bool {
	if t.done {
		return false
	}
	if !t.blocked {
		return true
	}
	return t.ready != nil && t.ready()
}

// pickNext chooses the thread to run after `from` stops.  symbolic: fork over all candidates.
func (e *Engine) pickNext(from *thread, symbolic bool) *thread {
	s := e.sch
	var cands []*thread
	for _, t := range s.threads {
		if t != from && t.canRun() {
			cands = append(cands, t)
		}
	}
	if symbolic && from.canRun() {
		cands = append([]*thread{from}, cands...)
	}
	if len(cands) == 0 {
		return nil
	}
	if !symbolic || len(cands) == 1 {
		return cands[0]
	}
	// context-switch bound: staying on the current thread is free, pre-empting it at a yield costs one unit of
	// the budget; with the budget used up yields stop forking
	if from.canRun() && s.preempts >= e.switchBudget {
		return from
	}
	i := e.choose(len(cands), func(i int) Term { return Bool(true) })
	if from.canRun() && cands[i] != from {
		s.preempts++
	}
	e.schedLog = append(e.schedLog, cands[i].id)
	return cands[i]
}

// switchTo passes the baton from the current thread `t` to `n` and waits until t is resumed.
func (e *Engine) switchTo(t, n *thread) {
	s := e.sch
	if n == t {
		return
	}
	s.switches++
	s.cur = n
	n.wake <- struct{}{}
	<-t.wake
	e.afterResume(t)
}

func (e *Engine) afterResume(t *thread) {
	s := e.sch
	if s == nil || s.killing {
		panic(threadKill{})
	}
	if t.id == 0 {
		if s.abort != nil {
			r := s.abort
			s.abort = nil
			panic(r)
		}
		if s.crash != nil {
			gp := *s.crash
			s.crash = nil
			panic(goPanic{Iface{T: types.Typ[types.String], V: "panic in goroutine (process death): " + showVal(gp.V)}})
		}
	}
}

// blockUntil suspends the current thread until ready() holds.
func (e *Engine) blockUntil(what string, ready func() bool) {
	s := e.sch
	if s == nil {
		if ready() {
			return
		}
		e.initSched()
		s = e.sch
	}
	t := s.cur
	for !ready() {
		t.blocked, t.ready, t.what = true, ready, what
		n := e.pickNext(t, false)
		if n == nil {
			t.blocked = false
			if t.id == 0 {
				panic(goPanic{Iface{T: types.Typ[types.String], V: "deadlock: all goroutines are asleep (main blocked on " + what + ")"}})
			}
			// a non-main thread found the deadlock: let main report it
			s.deadlock = true
			e.switchTo(t, s.threads[0])
			continue
		}
		e.switchTo(t, n)
		if t.id == 0 && s.deadlock {
			s.deadlock = false
			t.blocked = false
			panic(goPanic{Iface{T: types.Typ[types.String], V: "deadlock: all goroutines are asleep (main blocked on " + what + ")"}})
		}
	}
	t.blocked, t.ready = false, nil
}

// yield: scheduling point with a symbolic choice of the next thread
func (e *Engine) yield(tag string) {
	s := e.sch
	if s == nil {
		return
	}
	t := s.cur
	n := e.pickNext(t, true)
	if n == nil || n == t {
		return
	}
	e.switchTo(t, n)
}

// quiesce: run the other threads until none of them can make progress (main keeps the baton afterwards)
func (e *Engine) quiesce() {
	s := e.sch
	if s == nil {
		return
	}
	t := s.cur
	for {
		n := e.pickNext(t, false)
		if n == nil {
			return
		}
		// main is "blocked" only in the sense that it waits for everyone else to stop
		t.blocked, t.ready = true, func() bool { return e.pickNextExcept(t) == nil }
		e.switchTo(t, n)
		t.blocked, t.ready = false, nil
		if s.deadlock {
			s.deadlock = false
		}
	}
}

func (e *Engine) pickNextExcept(t *thread) *thread {
	for _, x := range e.sch.threads {
		if x != t && x.canRun() {
			return x
		}
	}
	return nil
}

// ---------------------------------------------------------------- channels

type ChanV struct {
	buf    []Value
	cap    int
	closed bool
	sendq  []*pendingSend
	recvw  int // receivers currently blocked on this channel
	et     types.Type
}
type pendingSend struct {
	v    Value
	done bool
}

func (e *Engine) chanSend(c *ChanV, v Value) {
	if c == nil {
		e.blockUntil("send on nil channel", func() bool { return false })
	}
	if c.closed {
		e.goPanicStr("send on closed channel")
	}
	if len(c.buf) < c.cap {
		c.buf = append(c.buf, copyVal(v))
		return
	}
	ps := &pendingSend{v: copyVal(v)}
	c.sendq = append(c.sendq, ps)
	e.blockUntil("chan send", func() bool { return ps.done || c.closed })
	if !ps.done && c.closed {
		e.goPanicStr("send on closed channel")
	}
}

func (c *ChanV) canRecv() bool { return len(c.buf) > 0 || len(c.sendq) > 0 || c.closed }

func (c *ChanV) take() (Value, bool) {
	if len(c.buf) > 0 {
		v := c.buf[0]
		c.buf = c.buf[1:]
		if len(c.sendq) > 0 { // a blocked sender moves into the buffer
			ps := c.sendq[0]
			c.sendq = c.sendq[1:]
			c.buf = append(c.buf, ps.v)
			ps.done = true
		}
		return v, true
	}
	if len(c.sendq) > 0 {
		ps := c.sendq[0]
		c.sendq = c.sendq[1:]
		ps.done = true
		return ps.v, true
	}
	return zero(c.et), false // closed
}

func (e *Engine) chanRecv(c *ChanV) (Value, bool) {
	if c == nil {
		e.blockUntil("receive from nil channel", func() bool { return false })
	}
	if !c.canRecv() {
		c.recvw++
		e.blockUntil("chan receive", c.canRecv)
		c.recvw--
	}
	return c.take()
}

func (e *Engine) selectInstr(fr *frame, in *ssa.Select) Value {
	n := len(in.States)
	chans := make([]*ChanV, n)
	sends := make([]Value, n)
	for i, st := range in.States {
		chans[i], _ = e.get(fr, st.Chan).(*ChanV)
		if st.Dir == types.SendOnly {
			sends[i] = e.get(fr, st.Send)
		}
	}
	readyIdx := func() int {
		for i, st := range in.States {
			c := chans[i]
			if c == nil {
				continue
			}
			if st.Dir == types.SendOnly {
				if c.closed || len(c.buf) < c.cap || c.recvw > 0 {
					return i
				}
			} else if c.canRecv() {
				return i
			}
		}
		return -1
	}
	idx := readyIdx()
	if idx < 0 {
		if !in.Blocking {
			return e.selectResult(in, -1, nil, false)
		}
		// announce ourselves as a receiver on every receive case so that senders can rendezvous
		for i, st := range in.States {
			if st.Dir != types.SendOnly && chans[i] != nil {
				chans[i].recvw++
			}
		}
		e.blockUntil("select", func() bool { return readyIdx() >= 0 })
		for i, st := range in.States {
			if st.Dir != types.SendOnly && chans[i] != nil {
				chans[i].recvw--
			}
		}
		idx = readyIdx()
	}
	st := in.States[idx]
	if st.Dir == types.SendOnly {
		e.chanSend(chans[idx], sends[idx])
		return e.selectResult(in, idx, nil, false)
	}
	v, ok := chans[idx].take()
	return e.selectResult(in, idx, v, ok)
}

func (e *Engine) selectResult(in *ssa.Select, idx int, v Value, ok bool) Value {
	res := Tuple{BV(64, int64(idx)), Bool(ok)}
	for i, st := range in.States {
		if st.Dir == types.RecvOnly {
			if i == idx {
				res = append(res, v)
			} else {
				res = append(res, zero(st.Chan.Type().Underlying().(*types.Chan).Elem()))
			}
		}
	}
	return res
}

// ---------------------------------------------------------------- sync

type mutexState struct {
	locked  bool
	readers int
}

func (e *Engine) mutex(p Value) *mutexState {
	ptr := p.(*Value)
	m, _ := e.pathData["mutexes"].(map[*Value]*mutexState)
	if m == nil {
		m = map[*Value]*mutexState{}
		e.pathData["mutexes"] = m
	}
	st := m[ptr]
	if st == nil {
		st = &mutexState{}
		m[ptr] = st
	}
	return st
}

func init() {
	I := func(name string, h intrinsic) { intrinsics[name] = h }
	lock := func(e *Engine, fr *frame, a []Value) Value {
		m := e.mutex(a[0])
		if m.locked || m.readers > 0 {
			e.blockUntil("mutex", func() bool { return !m.locked && m.readers == 0 })
		}
		m.locked = true
		return nil
	}
	unlock := func(e *Engine, fr *frame, a []Value) Value {
		m := e.mutex(a[0])
		if !m.locked {
			e.goPanicStr("sync: unlock of unlocked mutex")
		}
		m.locked = false
		return nil
	}
	I("(*sync.Mutex).Lock", lock)
	I("(*sync.Mutex).Unlock", unlock)
	I("(*sync.Mutex).TryLock", func(e *Engine, fr *frame, a []Value) Value {
		m := e.mutex(a[0])
		if m.locked {
			return Bool(false)
		}
		m.locked = true
		return Bool(true)
	})
	I("(*sync.RWMutex).Lock", lock)
	I("(*sync.RWMutex).Unlock", unlock)
	I("(*sync.RWMutex).RLock", func(e *Engine, fr *frame, a []Value) Value {
		m := e.mutex(a[0])
		if m.locked {
			e.blockUntil("rwmutex", func() bool { return !m.locked })
		}
		m.readers++
		return nil
	})
	I("(*sync.RWMutex).RUnlock", func(e *Engine, fr *frame, a []Value) Value {
		m := e.mutex(a[0])
		if m.readers <= 0 {
			e.goPanicStr("sync: RUnlock of unlocked RWMutex")
		}
		m.readers--
		return nil
	})
	// WaitGroup: counter in the side table
	wg := func(e *Engine, p Value) *mutexState { return e.mutex(p) }
	I("(*sync.WaitGroup).Add", func(e *Engine, fr *frame, a []Value) Value {
		w := wg(e, a[0])
		w.readers += a[1].(Term).Int()
		if w.readers < 0 {
			e.goPanicStr("sync: negative WaitGroup counter")
		}
		return nil
	})
	I("(*sync.WaitGroup).Done", func(e *Engine, fr *frame, a []Value) Value {
		w := wg(e, a[0])
		w.readers--
		if w.readers < 0 {
			e.goPanicStr("sync: negative WaitGroup counter")
		}
		return nil
	})
	I("(*sync.WaitGroup).Wait", func(e *Engine, fr *frame, a []Value) Value {
		w := wg(e, a[0])
		if w.readers > 0 {
			e.blockUntil("waitgroup", func() bool { return w.readers == 0 })
		}
		return nil
	})
	I("(*sync.Once).Do", func(e *Engine, fr *frame, a []Value) Value {
		o := e.mutex(a[0])
		if !o.locked {
			o.locked = true
			e.callFn(fr, a[1], nil, nil)
		}
		return nil
	})
	// sync.Pool: a per-pool free list, last put first out (what the runtime does on one P); an empty pool calls
	// New.  Get is a scheduling point candidate only through the code around it.  An object taken from the pool is
	// the very object that was put (exact aliasing), so use-after-Put shows as ordinary shared-memory interference.
	pool := func(e *Engine, p Value) *[]Value {
		ptr := p.(*Value)
		m, _ := e.pathData["pools"].(map[*Value]*[]Value)
		if m == nil {
			m = map[*Value]*[]Value{}
			e.pathData["pools"] = m
		}
		if m[ptr] == nil {
			m[ptr] = &[]Value{}
		}
		return m[ptr]
	}
	I("(*sync.Pool).Get", func(e *Engine, fr *frame, a []Value) Value {
		e.StubsSeen["sync.Pool(LIFO free list)"] = true
		l := pool(e, a[0])
		if n := len(*l); n > 0 {
			v := (*l)[n-1]
			*l = (*l)[:n-1]
			return v
		}
		st := (*a[0].(*Value)).(Struct)
		nw := st[len(st)-1] // field New
		if nw == nil {
			return Iface{}
		}
		if c, ok := nw.(*Closure); ok && c == nil {
			return Iface{}
		}
		if f, ok := nw.(*ssa.Function); ok && f == nil {
			return Iface{}
		}
		return e.callFn(fr, nw, nil, nil)
	})
	I("(*sync.Pool).Put", func(e *Engine, fr *frame, a []Value) Value {
		e.StubsSeen["sync.Pool(LIFO free list)"] = true
		if iv, ok := a[1].(Iface); ok && iv.T == nil {
			return nil
		}
		l := pool(e, a[0])
		*l = append(*l, a[1])
		return nil
	})
	I("time.Sleep", func(e *Engine, fr *frame, a []Value) Value { e.quiesceOthersOnce(); return nil })
	I("runtime.Gosched", func(e *Engine, fr *frame, a []Value) Value { e.quiesceOthersOnce(); return nil })
	rtIntrinsics["Yield"] = func(e *Engine, fr *frame, a []Value) Value { e.yield(strVal(a[0])); return nil }
	rtIntrinsics["SwitchBudget"] = func(e *Engine, fr *frame, a []Value) Value { e.switchBudget = a[0].(Term).Int(); return nil }
	rtIntrinsics["Quiesce"] = func(e *Engine, fr *frame, a []Value) Value { e.quiesce(); return nil }
	rtIntrinsics["Threads"] = func(e *Engine, fr *frame, a []Value) Value {
		if e.sch == nil {
			e.initSched()
		}
		return nil
	}
}

// quiesceOthersOnce: let one other runnable thread go first (deterministic), used for Sleep/Gosched
func (e *Engine) quiesceOthersOnce() {
	s := e.sch
	if s == nil {
		return
	}
	t := s.cur
	if n := e.pickNext(t, false); n != nil {
		e.switchTo(t, n)
	}
}

var _ = fmt.Sprint
