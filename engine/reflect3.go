package main

import (
	"go/types"
	"sort"

	"golang.org/x/tools/go/ssa"
)

// reflect: methods and calls

func (e *Engine) exportedMethods(t types.Type) []*types.Selection {
	ms := e.prog.MethodSets.MethodSet(t)
	var out []*types.Selection
	for i := 0; i < ms.Len(); i++ {
		if ms.At(i).Obj().Exported() {
			out = append(out, ms.At(i))
		}
	}
	sort.Slice(out, func(i, j int) bool { return out[i].Obj().Name() < out[j].Obj().Name() })
	return out
}

func sigWithoutRecv(sel *types.Selection) *types.Signature {
	sig := sel.Type().(*types.Signature)
	return types.NewSignatureType(nil, nil, nil, sig.Params(), sig.Results(), sig.Variadic())
}

func (e *Engine) methodValue(v RValue, sel *types.Selection) RValue {
	f := e.prog.MethodValue(sel)
	if f == nil {
		unsupported("no method value for %s", sel.Obj().Name())
	}
	recv := v.load()
	if _, isI := v.T.Underlying().(*types.Interface); isI {
		recv = recv.(Iface).V
	}
	return RValue{T: sigWithoutRecv(sel), V: Bound{Fn: f, Recv: recv}}
}

func init() {
	R := func(name string, h intrinsic) { intrinsics[name] = h }
	rv := func(a Value) RValue { return a.(RValue) }
	rt := func(a Value) types.Type { return a.(RType).T }
	R("(reflect.Value).NumMethod", func(e *Engine, fr *frame, a []Value) Value {
		return BV(64, int64(len(e.exportedMethods(rv(a[0]).T))))
	})
	R("(reflect.Value).Method", func(e *Engine, fr *frame, a []Value) Value {
		v := rv(a[0])
		ms := e.exportedMethods(v.T)
		i := e.index(a[1].(Term), len(ms))
		return e.methodValue(v, ms[i])
	})
	R("(reflect.Value).MethodByName", func(e *Engine, fr *frame, a []Value) Value {
		v := rv(a[0])
		name := strVal(a[1])
		for _, sel := range e.exportedMethods(v.T) {
			if sel.Obj().Name() == name {
				return e.methodValue(v, sel)
			}
		}
		return RValue{}
	})
	R("reflect.Type.NumMethod", func(e *Engine, fr *frame, a []Value) Value {
		return BV(64, int64(len(e.exportedMethods(rt(a[0])))))
	})
	R("reflect.Type.Method", func(e *Engine, fr *frame, a []Value) Value {
		ms := e.exportedMethods(rt(a[0]))
		i := e.index(a[1].(Term), len(ms))
		sel := ms[i]
		// reflect.Method{Name, PkgPath string; Type Type; Func Value; Index int}
		return Struct{sel.Obj().Name(), "", rtypeV(sel.Type()), RValue{}, BV(64, int64(i))}
	})
	R("reflect.Type.MethodByName", func(e *Engine, fr *frame, a []Value) Value {
		name := strVal(a[1])
		for i, sel := range e.exportedMethods(rt(a[0])) {
			if sel.Obj().Name() == name {
				return Tuple{Struct{name, "", rtypeV(sel.Type()), RValue{}, BV(64, int64(i))}, Bool(true)}
			}
		}
		return Tuple{Struct{"", "", Iface{}, RValue{}, BV(64, 0)}, Bool(false)}
	})
	sig := func(e *Engine, t types.Type) *types.Signature {
		s, ok := t.Underlying().(*types.Signature)
		if !ok {
			e.rpanic("reflect: In/Out of non-func type " + t.String())
		}
		return s
	}
	R("reflect.Type.NumIn", func(e *Engine, fr *frame, a []Value) Value { return BV(64, int64(sig(e, rt(a[0])).Params().Len())) })
	R("reflect.Type.NumOut", func(e *Engine, fr *frame, a []Value) Value { return BV(64, int64(sig(e, rt(a[0])).Results().Len())) })
	R("reflect.Type.In", func(e *Engine, fr *frame, a []Value) Value {
		s := sig(e, rt(a[0]))
		return rtypeV(s.Params().At(e.index(a[1].(Term), s.Params().Len())).Type())
	})
	R("reflect.Type.Out", func(e *Engine, fr *frame, a []Value) Value {
		s := sig(e, rt(a[0]))
		return rtypeV(s.Results().At(e.index(a[1].(Term), s.Results().Len())).Type())
	})
	R("reflect.Type.IsVariadic", func(e *Engine, fr *frame, a []Value) Value { return Bool(sig(e, rt(a[0])).Variadic()) })
	R("(reflect.Value).Call", func(e *Engine, fr *frame, a []Value) Value {
		v := rv(a[0])
		s := sig(e, v.T)
		in := a[1].(Slice)
		if len(in.a) != s.Params().Len() {
			e.rpanic("reflect: Call with wrong number of input arguments")
		}
		var args []Value
		var fn Value
		switch f := v.load().(type) {
		case Bound:
			fn = f.Fn
			args = append(args, f.Recv)
		case *ssa.Function, *Closure:
			fn = f
		default:
			unsupported("reflect.Value.Call of %T", f)
		}
		for i, x := range in.a {
			xv := x.(RValue)
			pt := s.Params().At(i).Type()
			val := xv.load()
			if _, isI := pt.Underlying().(*types.Interface); isI {
				if _, already := xv.T.Underlying().(*types.Interface); !already {
					val = Iface{T: xv.T, V: val}
				}
			}
			args = append(args, val)
		}
		res := e.callFn(fr, fn, args, nil)
		n := s.Results().Len()
		out := make([]Value, n)
		switch n {
		case 0:
		case 1:
			out[0] = RValue{T: s.Results().At(0).Type(), V: res}
		default:
			tup := res.(Tuple)
			for i := 0; i < n; i++ {
				out[i] = RValue{T: s.Results().At(i).Type(), V: tup[i]}
			}
		}
		return Slice{out}
	})
}
