package main

import (
	"crypto/hmac"
	"hash"

	"golang.org/x/tools/go/ssa"

	"crypto/sha1"
	"crypto/sha256"
	"crypto/sha512"
	"fmt"
	"go/types"
)

// Hash functions: one uninterpreted function per (family, input length); concrete inputs are hashed for real.
func (e *Engine) hashSym(fam string, outBytes int, in []Term) []Term {
	allc := true
	for _, t := range in {
		if !t.IsConst() {
			allc = false
			break
		}
	}
	if allc {
		b := make([]byte, len(in))
		for i, t := range in {
			b[i] = byte(t.C.Uint64())
		}
		var h []byte
		switch fam {
		case "sha1":
			x := sha1.Sum(b)
			h = x[:]
		case "sha256":
			x := sha256.Sum256(b)
			h = x[:]
		case "sha512":
			x := sha512.Sum512(b)
			h = x[:]
		default:
			unsupported("hash family %s", fam)
		}
		out := make([]Term, len(h))
		for i := range h {
			out[i] = BV(8, int64(h[i]))
		}
		inT := BV(1, 0)
		if len(in) > 0 {
			inT = ConcatBytes(in)
		}
		e.recordHash(fam, len(in), inT, ConcatBytes(out))
		return out
	}
	name := fmt.Sprintf("%s_%d", fam, len(in))
	uf(name, []int{8 * len(in)}, 8*outBytes)
	inT := ConcatBytes(in)
	outT := App(name, 8*outBytes, inT)
	e.recordHash(fam, len(in), inT, outT)
	return SplitBytes(outT)
}

type hashStub struct {
	fam  string
	size int
	data []Term
}

var hashStubT = types.NewNamed(types.NewTypeName(0, nil, "hashStub", nil), types.NewStruct(nil, nil), nil)

func init() {
	I := func(name string, h intrinsic) { intrinsics[name] = h }
	newHash := func(fam string, size int) intrinsic {
		return func(e *Engine, fr *frame, a []Value) Value {
			return Iface{T: hashStubT, V: &hashStub{fam: fam, size: size}}
		}
	}
	I("crypto/sha1.New", newHash("sha1", 20))
	I("crypto/sha256.New", newHash("sha256", 32))
	I("crypto/sha512.New", newHash("sha512", 64))
	I("crypto/sha256.Sum256", func(e *Engine, fr *frame, a []Value) Value {
		h := e.hashSym("sha256", 32, sliceTerms(a[0]))
		out := make(Array, 32)
		for i := range h {
			out[i] = h[i]
		}
		return out
	})
	I("hashStub.Write", func(e *Engine, fr *frame, a []Value) Value {
		h := a[0].(*hashStub)
		ts := sliceTerms(a[1])
		h.data = append(h.data, ts...)
		return Tuple{BV(64, int64(len(ts))), Iface{}}
	})
	I("hashStub.Sum", func(e *Engine, fr *frame, a []Value) Value {
		h := a[0].(*hashStub)
		prefix := a[1].(Slice)
		out := append([]Value{}, prefix.a...)
		for _, t := range e.hashSym(h.fam, h.size, h.data) {
			out = append(out, t)
		}
		return Slice{out}
	})
	I("hashStub.Reset", func(e *Engine, fr *frame, a []Value) Value { a[0].(*hashStub).data = nil; return nil })
	I("hashStub.Size", func(e *Engine, fr *frame, a []Value) Value { return BV(64, int64(a[0].(*hashStub).size)) })
	I("hashStub.BlockSize", func(e *Engine, fr *frame, a []Value) Value { return BV(64, 64) })
	// PBKDF2 as one uninterpreted function of (password, salt) per pair of lengths; iteration count and PRF are
	// part of the function's identity
	I("golang.org/x/crypto/pbkdf2.Key", func(e *Engine, fr *frame, a []Value) Value {
		pw, salt := sliceTerms(a[0]), sliceTerms(a[1])
		iter, keyLen := a[2].(Term), a[3].(Term)
		if !iter.IsConst() || !keyLen.IsConst() {
			unsupported("symbolic pbkdf2 parameters")
		}
		in := append(append([]Term{}, pw...), salt...)
		allc := true
		for _, t := range in {
			if !t.IsConst() {
				allc = false
			}
		}
		if allc {
			if fn, ok := a[4].(*ssa.Function); ok && fn.String() == "crypto/sha512.New" {
				tb := func(ts []Term) []byte {
					b := make([]byte, len(ts))
					for i, t := range ts {
						b[i] = byte(t.C.Uint64())
					}
					return b
				}
				out := pbkdf2Key(tb(pw), tb(salt), iter.Int(), keyLen.Int(), sha512.New)
				ts := make([]Term, len(out))
				for i := range out {
					ts[i] = BV(8, int64(out[i]))
				}
				return termsSlice(ts)
			}
		}
		fam := fmt.Sprintf("pbkdf2_i%d_p%d", iter.Int(), len(pw))
		if len(in) == 0 {
			in = []Term{BV(8, 0)}
		}
		name := fmt.Sprintf("%s_%d", fam, len(in))
		uf(name, []int{8 * len(in)}, 8*keyLen.Int())
		inT := ConcatBytes(in)
		outT := App(name, 8*keyLen.Int(), inT)
		e.recordHash(fam, len(in), inT, outT)
		return termsSlice(SplitBytes(outT))
	})
}

// pbkdf2Key: RFC 2898 PBKDF2 (same algorithm as golang.org/x/crypto/pbkdf2.Key), used for concrete inputs
func pbkdf2Key(password, salt []byte, iter, keyLen int, h func() hash.Hash) []byte {
	prf := hmac.New(h, password)
	hashLen := prf.Size()
	numBlocks := (keyLen + hashLen - 1) / hashLen
	var buf [4]byte
	dk := make([]byte, 0, numBlocks*hashLen)
	U := make([]byte, hashLen)
	for block := 1; block <= numBlocks; block++ {
		prf.Reset()
		prf.Write(salt)
		buf[0], buf[1], buf[2], buf[3] = byte(block>>24), byte(block>>16), byte(block>>8), byte(block)
		prf.Write(buf[:4])
		dk = prf.Sum(dk)
		T := dk[len(dk)-hashLen:]
		copy(U, T)
		for n := 2; n <= iter; n++ {
			prf.Reset()
			prf.Write(U)
			U = U[:0]
			U = prf.Sum(U)
			for x := range U {
				T[x] ^= U[x]
			}
		}
	}
	return dk[:keyLen]
}
