package main

import (
	"fmt"
	"go/types"
	"regexp"
	"sort"
	"strings"
)

// Environment stubs: randomness (tagged by source) and the clock.  Values are fresh symbolic constants that
// are NOT part of the replay vector (the harness cannot pin them natively); they are reported in the evidence.

func (e *Engine) envFresh(w int, src string) Term {
	n, _ := e.pathData["envn"].(int)
	e.pathData["envn"] = n + 1
	name := fmt.Sprintf("env_%s_%d_w%d", src, n, w)
	if !freshDeclared[name] {
		freshDeclared[name] = true
		decls = append(decls, fmt.Sprintf("(declare-const %s %s)", name, sortS(w)))
	}
	t := Term{W: w, E: name}
	srcs, _ := e.pathData["envsrc"].(map[string]string)
	if srcs == nil {
		srcs = map[string]string{}
		e.pathData["envsrc"] = srcs
	}
	srcs[name] = src
	return t
}

func (e *Engine) fillRandom(dst Slice, src string) {
	for i := range dst.a {
		dst.a[i] = e.envFresh(8, src)
	}
}

// randFails: after verifrt.RandMayFail() every draw from crypto/rand forks into "delivered" and "the source
// returned an error and no bytes" (a failing /dev/urandom or getrandom).
func (e *Engine) randFails() bool {
	if on, _ := e.pathData["randMayFail"].(bool); !on {
		return false
	}
	return e.branch(e.envFresh(0, "cryptofail"))
}

type opaqueRand struct{ src string }

var opaqueRandT = types.NewNamed(types.NewTypeName(0, nil, "opaqueRand", nil), types.NewStruct(nil, nil), nil)

func init() {
	I := func(name string, h intrinsic) { intrinsics[name] = h }
	I("math/rand.Read", func(e *Engine, fr *frame, a []Value) Value {
		s := a[0].(Slice)
		e.fillRandom(s, "prng")
		return Tuple{BV(64, int64(len(s.a))), Iface{}}
	})
	I("crypto/rand.Read", func(e *Engine, fr *frame, a []Value) Value {
		s := a[0].(Slice)
		if e.randFails() {
			return Tuple{BV(64, 0), mkErr("crypto/rand: the operating system's random source is unavailable", nil)}
		}
		e.fillRandom(s, "crypto")
		return Tuple{BV(64, int64(len(s.a))), Iface{}}
	})
	I("math/rand.Seed", func(e *Engine, fr *frame, a []Value) Value {
		e.pathData["reseeded"] = true
		return nil
	})
	I("math/rand.Int63", func(e *Engine, fr *frame, a []Value) Value {
		return Lshr(e.envFresh(64, "prng"), BV(64, 1))
	})
	I("math/rand.Int31", func(e *Engine, fr *frame, a []Value) Value {
		return ZExt(Extract(30, 0, e.envFresh(32, "prng")), 32)
	})
	I("math/rand.Intn", func(e *Engine, fr *frame, a []Value) Value {
		n := a[0].(Term)
		r := e.envFresh(64, "prng")
		e.assume(And(Sle(BV(64, 0), r), Slt(r, n)))
		return r
	})
	I("math/rand.NewSource", func(e *Engine, fr *frame, a []Value) Value {
		// a source seeded from the argument: tagged "prng-seeded" (the seed is typically the clock)
		return Iface{T: opaqueRandT, V: &opaqueRand{"prngseeded"}}
	})
	I("math/rand.New", func(e *Engine, fr *frame, a []Value) Value {
		var cell Value = &opaqueRand{"prngseeded"}
		return &cell
	})
	// (*big.Int).Rand(rnd, n): uniform in [0,n) from rnd
	intrinsics["(*math/big.Int).Rand"] = func(e *Engine, fr *frame, a []Value) Value {
		n := bigGet(a[2])
		w := n.w
		r := e.envFresh(w, "prngseeded")
		e.assume(Ult(r, n.t))
		return bigSet(a[0], &bigVal{w, r, false})
	}
	// crypto/rand.Int(reader, max)
	I("crypto/rand.Int", func(e *Engine, fr *frame, a []Value) Value {
		n := bigGet(a[1])
		if e.randFails() {
			return Tuple{(*Value)(nil), mkErr("crypto/rand: the operating system's random source is unavailable", nil)}
		}
		r := e.envFresh(n.w, "crypto")
		e.assume(Ult(r, n.t))
		return Tuple{e.newBig(&bigVal{n.w, r, false}), Iface{}}
	})
}

// ---- clock: time.Now returns a time.Time built from (unix seconds, nanoseconds).  Concrete and advancing
// by a fixed step when the harness called verifrt.SetClock, otherwise symbolic and non-decreasing.
type clockState struct {
	concrete bool
	sec, ns  int64
	step     int64
	lastS    Term
	lastN    Term
	have     bool
	yields   bool
}

const unixToInternal = (1969*365 + 1969/4 - 1969/100 + 1969/400) * 86400

func (e *Engine) clock() *clockState {
	c, _ := e.pathData["clock"].(*clockState)
	if c == nil {
		c = &clockState{}
		e.pathData["clock"] = c
	}
	return c
}

func init() {
	rtIntrinsics["SetClock"] = func(e *Engine, fr *frame, a []Value) Value {
		c := e.clock()
		c.concrete = true
		c.sec, c.ns, c.step = int64(a[0].(Term).Int()), int64(a[1].(Term).Int()), int64(a[2].(Term).Int())
		return nil
	}
	rtIntrinsics["ClockYields"] = func(e *Engine, fr *frame, a []Value) Value {
		e.clock().yields = a[0].(Term).True()
		return nil
	}
	intrinsics["time.Now"] = func(e *Engine, fr *frame, a []Value) Value {
		c := e.clock()
		if c.yields {
			defer e.yield("clock")
		}
		var sec, ns Term
		if c.concrete {
			sec, ns = BV(64, c.sec), BV(64, c.ns)
			c.ns += c.step
			for c.ns >= 1000000000 {
				c.ns -= 1000000000
				c.sec++
			}
			for c.ns < 0 { // a negative step: the clock is being set back (NTP step, VM resume)
				c.ns += 1000000000
				c.sec--
			}
		} else {
			sec, ns = e.envFresh(64, "clock"), e.envFresh(64, "clock")
			e.assume(And(Sle(BV(64, 0), sec), Slt(sec, BV(64, 1<<31))))
			e.assume(And(Sle(BV(64, 0), ns), Slt(ns, BV(64, 1000000000))))
			if c.have {
				e.assume(Or(Slt(c.lastS, sec), And(Eq(c.lastS, sec), Sle(c.lastN, ns))))
			}
			c.lastS, c.lastN, c.have = sec, ns, true
		}
		// time.Time{wall: nsec (no monotonic bit), ext: seconds since year 1, loc: nil (UTC)}
		return Struct{ZExt(Extract(31, 0, ns), 64), Add(sec, BV(64, unixToInternal)), (*Value)(nil)}
	}
}

// ---- provenance of values: which environment sources does a term (syntactically) depend on?
var srcRe = regexp.MustCompile(`env_([a-z]+)_\d+_w\d+|in_\d+_w\d+|\bt\d+\b`)

func termSources(t Term, seen map[string]bool, out map[string]bool) {
	if t.IsConst() {
		return
	}
	var walk func(expr string)
	walk = func(expr string) {
		for _, m := range srcRe.FindAllStringSubmatch(expr, -1) {
			tok := m[0]
			switch {
			case strings.HasPrefix(tok, "env_"):
				out[m[1]] = true
			case strings.HasPrefix(tok, "in_"):
				out["input"] = true
			default: // a named definition tN
				if seen[tok] {
					continue
				}
				seen[tok] = true
				if body, ok := defBodies[tok]; ok {
					walk(body)
				}
			}
		}
	}
	walk(t.E)
}

func init() {
	rtIntrinsics["Sources"] = func(e *Engine, fr *frame, a []Value) Value {
		out := map[string]bool{}
		seen := map[string]bool{}
		for _, t := range sliceTerms(a[0]) {
			termSources(t, seen, out)
		}
		var keys []string
		for k := range out {
			keys = append(keys, k)
		}
		sort.Strings(keys)
		return strings.Join(keys, ",")
	}
	rtIntrinsics["RandMayFail"] = func(e *Engine, fr *frame, a []Value) Value {
		e.pathData["randMayFail"] = true
		return nil
	}
	rtIntrinsics["Reseeded"] = func(e *Engine, fr *frame, a []Value) Value {
		r, _ := e.pathData["reseeded"].(bool)
		return Bool(r)
	}
	// NonConstant: the solver finds two different values for the byte string under the path condition
	rtIntrinsics["NonConstant"] = func(e *Engine, fr *frame, a []Value) Value {
		ts := sliceTerms(a[0])
		if len(ts) == 0 {
			return Bool(false)
		}
		t := ConcatBytes(ts)
		if t.IsConst() {
			return Bool(false)
		}
		if e.solver.Check() != "sat" {
			return Bool(false)
		}
		vs, err := e.solver.GetValues([]Term{t})
		if err != nil {
			return Bool(false)
		}
		v := BVb(t.W, parseModelBig(vs[0]))
		return Bool(e.solver.CheckWith(Not(Eq(t, v))) == "sat")
	}
}
