package main

import (
	"go/types"
	"reflect"
)

// encoding/json for flat structs of strings (the session file format): Marshal writes the canonical object,
// Unmarshal is a small JSON object parser over byte terms: structural characters must be concrete, string
// contents may be symbolic (bytes that cannot be '"', '\\' or control characters by construction: base64
// output and harness alphabets).  A cut-off document fails like the real decoder (unexpected end of input).

func jsonFields(t types.Type) (*types.Struct, []string) {
	st, ok := t.Underlying().(*types.Struct)
	if !ok {
		return nil, nil
	}
	names := make([]string, st.NumFields())
	for i := 0; i < st.NumFields(); i++ {
		names[i] = st.Field(i).Name()
		if tag, ok := reflect.StructTag(st.Tag(i)).Lookup("json"); ok && tag != "" && tag != "-" {
			n := tag
			for j := 0; j < len(tag); j++ {
				if tag[j] == ',' {
					n = tag[:j]
					break
				}
			}
			if n != "" {
				names[i] = n
			}
		}
		if !isString(st.Field(i).Type()) {
			return nil, nil
		}
	}
	return st, names
}

func init() {
	I := func(name string, h intrinsic) { intrinsics[name] = h }
	lit := func(s string) []Value {
		out := make([]Value, len(s))
		for i := 0; i < len(s); i++ {
			out[i] = BV(8, int64(s[i]))
		}
		return out
	}
	I("encoding/json.Marshal", func(e *Engine, fr *frame, a []Value) Value {
		v := a[0].(Iface)
		t := v.T
		val := v.V
		if p, ok := t.Underlying().(*types.Pointer); ok {
			t = p.Elem()
			val = *(val.(*Value))
		}
		st, names := jsonFields(t)
		if st == nil {
			unsupported("json.Marshal of %v", v.T)
		}
		out := lit("{")
		for i, n := range names {
			if i > 0 {
				out = append(out, lit(",")...)
			}
			out = append(out, lit("\""+n+"\":\"")...)
			for _, b := range strBytes(val.(Struct)[i]) {
				if b.IsConst() {
					c := byte(b.C.Uint64())
					if c == '"' || c == '\\' || c < 0x20 || c == '<' || c == '>' || c == '&' || c >= 0x80 {
						unsupported("json.Marshal: character %q needs escaping (not modelled)", c)
					}
				}
				out = append(out, b)
			}
			out = append(out, lit("\"")...)
		}
		out = append(out, lit("}")...)
		return Tuple{Slice{out}, Iface{}}
	})
	I("encoding/json.Unmarshal", func(e *Engine, fr *frame, a []Value) Value {
		data := sliceTerms(a[0])
		v := a[1].(Iface)
		p, ok := v.T.Underlying().(*types.Pointer)
		if !ok {
			return mkErr("json: Unmarshal(non-pointer)", nil)
		}
		st, names := jsonFields(p.Elem())
		if st == nil {
			unsupported("json.Unmarshal into %v", v.T)
		}
		dst := (*(v.V.(*Value))).(Struct)
		pos := 0
		syntax := func(msg string) Value { return mkErr("json: "+msg, nil) }
		skipWS := func() {
			for pos < len(data) && data[pos].IsConst() {
				c := data[pos].C.Uint64()
				if c == ' ' || c == '\n' || c == '\t' || c == '\r' {
					pos++
					continue
				}
				break
			}
		}
		expect := func(c byte) bool {
			skipWS()
			if pos < len(data) && data[pos].IsConst() && byte(data[pos].C.Uint64()) == c {
				pos++
				return true
			}
			return false
		}
		str := func() ([]Term, bool) {
			if !expect('"') {
				return nil, false
			}
			var out []Term
			for pos < len(data) {
				b := data[pos]
				pos++
				if b.IsConst() {
					c := byte(b.C.Uint64())
					if c == '"' {
						return out, true
					}
					if c == '\\' {
						unsupported("json.Unmarshal: escape sequences are not modelled")
					}
				}
				out = append(out, b)
			}
			return nil, false // unterminated string: unexpected end of JSON input
		}
		if !expect('{') {
			if pos >= len(data) {
				return syntax("unexpected end of JSON input")
			}
			return syntax("invalid character looking for beginning of value")
		}
		first := true
		for {
			skipWS()
			if pos >= len(data) {
				return syntax("unexpected end of JSON input")
			}
			if expect('}') {
				break
			}
			if !first && !expect(',') {
				return syntax("invalid character after object key:value pair")
			}
			first = false
			key, ok := str()
			if !ok {
				return syntax("unexpected end of JSON input")
			}
			if !expect(':') {
				return syntax("unexpected end of JSON input")
			}
			val, ok := str()
			if !ok {
				return syntax("unexpected end of JSON input")
			}
			ks, isConc := mkStr(key).(string)
			if !isConc {
				unsupported("json.Unmarshal: symbolic object key")
			}
			for i, n := range names {
				if n == ks {
					dst[i] = mkStr(val)
				}
			}
		}
		skipWS()
		if pos != len(data) {
			return syntax("invalid character after top-level value")
		}
		return Iface{}
	})
}
