package main

import (
	"fmt"
	"go/types"
	"strings"
)

// ---------------------------------------------------------------- encoding/base64 (StdEncoding), exact
// over concrete-length symbolic byte strings: sextet <-> character through arithmetic ite chains.

func b64char(v Term) Term { // v: BV8 holding 0..63
	c := func(x int64) Term { return BV(8, x) }
	return Ite(Ult(v, c(26)), Add(v, c('A')),
		Ite(Ult(v, c(52)), Add(v, c('a'-26)),
			Ite(Ult(v, c(62)), Sub(Add(v, c('0')), c(52)),
				Ite(Eq(v, c(62)), c('+'), c('/')))))
}

// b64val returns (sextet, valid)
func b64val(ch Term) (Term, Term) {
	c := func(x int64) Term { return BV(8, x) }
	isU := And(Ule(c('A'), ch), Ule(ch, c('Z')))
	isL := And(Ule(c('a'), ch), Ule(ch, c('z')))
	isD := And(Ule(c('0'), ch), Ule(ch, c('9')))
	isP := Eq(ch, c('+'))
	isS := Eq(ch, c('/'))
	v := Ite(isU, Sub(ch, c('A')), Ite(isL, Add(Sub(ch, c('a')), c(26)), Ite(isD, Add(Sub(ch, c('0')), c(52)), Ite(isP, c(62), c(63)))))
	return v, Or(Or(Or(isU, isL), Or(isD, isP)), isS)
}

func b64encode(src []Term) []Term {
	var out []Term
	for i := 0; i < len(src); i += 3 {
		n := len(src) - i
		b0 := src[i]
		b1, b2 := BV(8, 0), BV(8, 0)
		if n > 1 {
			b1 = src[i+1]
		}
		if n > 2 {
			b2 = src[i+2]
		}
		w := Concat(Concat(b0, b1), b2) // 24 bits
		six := func(k int) Term { return ZExt(Extract(23-6*k, 18-6*k, w), 8) }
		out = append(out, b64char(six(0)), b64char(six(1)))
		if n > 1 {
			out = append(out, b64char(six(2)))
		} else {
			out = append(out, BV(8, '='))
		}
		if n > 2 {
			out = append(out, b64char(six(3)))
		} else {
			out = append(out, BV(8, '='))
		}
	}
	return out
}

func init() {
	I := func(name string, h intrinsic) { intrinsics[name] = h }
	I("(*encoding/base64.Encoding).EncodeToString", func(e *Engine, fr *frame, a []Value) Value {
		return mkStr(b64encode(sliceTerms(a[1])))
	})
	I("(*encoding/base64.Encoding).DecodeString", func(e *Engine, fr *frame, a []Value) Value {
		s := strBytes(a[1])
		corrupt := func() Value { return Tuple{Slice{[]Value{}}, mkErr("illegal base64 data", nil)} }
		if len(s)%4 != 0 {
			return corrupt()
		}
		if len(s) == 0 {
			return Tuple{Slice{[]Value{}}, Iface{}}
		}
		// padding: fork on the number of trailing '=' (0, 1, 2)
		eq := func(t Term) Term { return Eq(t, BV(8, '=')) }
		n := len(s)
		pad := e.choose(3, func(i int) Term {
			switch i {
			case 0:
				return Not(eq(s[n-1]))
			case 1:
				return And(eq(s[n-1]), Not(eq(s[n-2])))
			}
			return And(eq(s[n-1]), eq(s[n-2]))
		})
		body := s[:n-pad]
		valid := Bool(true)
		vals := make([]Term, len(body))
		for i, ch := range body {
			v, ok := b64val(ch)
			vals[i] = v
			valid = And(valid, ok)
		}
		// strict decoding also wants the unused low bits of the last sextet to be... (StdEncoding is not strict)
		if !e.branch(valid) {
			return corrupt()
		}
		var out []Term
		for i := 0; i+1 < len(vals); i += 4 {
			get := func(k int) Term {
				if i+k < len(vals) {
					return Extract(5, 0, vals[i+k])
				}
				return BV(6, 0)
			}
			w := Concat(Concat(Concat(get(0), get(1)), get(2)), get(3)) // 24 bits
			nb := 3
			if i+4 > len(vals) {
				nb = 3 - (i + 4 - len(vals))
			}
			for k := 0; k < nb; k++ {
				out = append(out, Extract(23-8*k, 16-8*k, w))
			}
		}
		return Tuple{termsSlice(out), Iface{}}
	})
}

// ---------------------------------------------------------------- a tiny symbolic file system
type fsNode struct {
	exists bool
	isDir  bool
	data   []Value
	mtime  Value // time.Time struct value
	stamp  int
}

type fsState struct {
	nodes map[string]*fsNode
	cwd   string
	n     int
}

var fileInfoT = types.NewNamed(types.NewTypeName(0, nil, "fsFileInfo", nil), types.NewStruct(nil, nil), nil)

func (e *Engine) fs() *fsState {
	f, _ := e.pathData["fs"].(*fsState)
	if f == nil {
		f = &fsState{nodes: map[string]*fsNode{"/": {exists: true, isDir: true}, "/vfs": {exists: true, isDir: true}}, cwd: "/vfs"}
		e.pathData["fs"] = f
	}
	return f
}

func (f *fsState) abs(p string) string {
	if p == "" {
		return ""
	}
	if !strings.HasPrefix(p, "/") {
		p = f.cwd + "/" + p
	}
	// clean: collapse //, trailing /, and "." segments
	parts := []string{}
	for _, s := range strings.Split(p, "/") {
		if s == "" || s == "." {
			continue
		}
		parts = append(parts, s)
	}
	return "/" + strings.Join(parts, "/")
}

func enoent(e *Engine, op, path string) Value {
	return Iface{T: opaqueErrT, V: &OpaqueErr{Msg: op + " " + path + ": no such file or directory", Errno: 2}}
}

func concreteStr(v Value) string {
	s, ok := v.(string)
	if !ok {
		unsupported("file system model needs concrete paths")
	}
	return s
}

func init() {
	I := func(name string, h intrinsic) { intrinsics[name] = h }
	I("os.Stat", func(e *Engine, fr *frame, a []Value) Value {
		f := e.fs()
		p := concreteStr(a[0])
		n := f.nodes[f.abs(p)]
		if p == "" || n == nil || !n.exists {
			return Tuple{Iface{}, enoent(e, "stat", p)}
		}
		return Tuple{Iface{T: fileInfoT, V: n}, Iface{}}
	})
	I("fsFileInfo.ModTime", func(e *Engine, fr *frame, a []Value) Value {
		n := a[0].(*fsNode)
		if n.mtime == nil {
			return Struct{BV(64, 0), BV(64, unixToInternal), (*Value)(nil)}
		}
		return copyVal(n.mtime)
	})
	I("fsFileInfo.IsDir", func(e *Engine, fr *frame, a []Value) Value { return Bool(a[0].(*fsNode).isDir) })
	I("fsFileInfo.Size", func(e *Engine, fr *frame, a []Value) Value { return BV(64, int64(len(a[0].(*fsNode).data))) })
	I("fsFileInfo.Name", func(e *Engine, fr *frame, a []Value) Value { return "file" })
	I("fsFileInfo.Mode", func(e *Engine, fr *frame, a []Value) Value {
		if a[0].(*fsNode).isDir {
			return BVu(32, 1<<31|0755)
		}
		return BV(32, 0600)
	})
	readFile := func(e *Engine, fr *frame, a []Value) Value {
		f := e.fs()
		p := concreteStr(a[0])
		n := f.nodes[f.abs(p)]
		if p == "" || n == nil || !n.exists || n.isDir {
			return Tuple{Slice{}, enoent(e, "open", p)}
		}
		out := make([]Value, len(n.data))
		copy(out, n.data)
		return Tuple{Slice{out}, Iface{}}
	}
	I("os.ReadFile", readFile)
	I("io/ioutil.ReadFile", readFile)
	writeFile := func(e *Engine, fr *frame, a []Value) Value {
		f := e.fs()
		p := concreteStr(a[0])
		ap := f.abs(p)
		if p == "" {
			return enoent(e, "open", p)
		}
		dir := ap[:strings.LastIndex(ap, "/")]
		if dir == "" {
			dir = "/"
		}
		if d := f.nodes[dir]; d == nil || !d.exists || !d.isDir {
			return enoent(e, "open", p)
		}
		n := f.nodes[ap]
		if n == nil {
			n = &fsNode{}
			f.nodes[ap] = n
		}
		src := a[1].(Slice)
		n.exists, n.isDir = true, false
		n.data = make([]Value, len(src.a))
		copy(n.data, src.a)
		// the write stamps the file with the current (stub) clock reading
		now := intrinsics["time.Now"](e, fr, nil)
		n.mtime = now
		return Iface{}
	}
	I("os.WriteFile", writeFile)
	I("io/ioutil.WriteFile", writeFile)
	I("os.Chtimes", func(e *Engine, fr *frame, a []Value) Value {
		f := e.fs()
		p := concreteStr(a[0])
		n := f.nodes[f.abs(p)]
		if n == nil || !n.exists {
			return enoent(e, "chtimes", p)
		}
		n.mtime = copyVal(a[2])
		return Iface{}
	})
	I("os.Truncate", func(e *Engine, fr *frame, a []Value) Value {
		f := e.fs()
		p := concreteStr(a[0])
		n := f.nodes[f.abs(p)]
		if n == nil || !n.exists {
			return enoent(e, "truncate", p)
		}
		sz := e.concretize(a[1].(Term), 0, len(n.data))
		if sz < 0 || sz > len(n.data) {
			unsupported("truncate beyond the file size")
		}
		n.data = n.data[:sz]
		n.mtime = intrinsics["time.Now"](e, fr, nil) // truncate(2) updates the modification time
		return Iface{}
	})
	I("os.MkdirTemp", func(e *Engine, fr *frame, a []Value) Value {
		f := e.fs()
		f.n++
		d := fmt.Sprintf("/vfs/tmp%d", f.n)
		f.nodes[d] = &fsNode{exists: true, isDir: true}
		return Tuple{d, Iface{}}
	})
	I("os.Mkdir", func(e *Engine, fr *frame, a []Value) Value {
		f := e.fs()
		f.nodes[f.abs(concreteStr(a[0]))] = &fsNode{exists: true, isDir: true}
		return Iface{}
	})
	I("os.RemoveAll", func(e *Engine, fr *frame, a []Value) Value { return Iface{} })
	I("os.Remove", func(e *Engine, fr *frame, a []Value) Value {
		f := e.fs()
		delete(f.nodes, f.abs(concreteStr(a[0])))
		return Iface{}
	})
	I("os.Chdir", func(e *Engine, fr *frame, a []Value) Value {
		f := e.fs()
		f.cwd = f.abs(concreteStr(a[0]))
		return Iface{}
	})
	I("os.Getwd", func(e *Engine, fr *frame, a []Value) Value { return Tuple{e.fs().cwd, Iface{}} })
	// errors.Is on the engine's opaque errors: errno identity
	isErr := func(e *Engine, fr *frame, a []Value) Value {
		err, _ := a[0].(Iface)
		target, _ := a[1].(Iface)
		if err.T == nil || target.T == nil {
			return Bool(err.T == nil && target.T == nil)
		}
		want := -1
		if t, ok := target.V.(Term); ok && t.IsConst() {
			want = t.Int()
		}
		v := err.V
		for depth := 0; depth < 10; depth++ {
			oe, ok := v.(*OpaqueErr)
			if !ok {
				break
			}
			if tv, ok := target.V.(*OpaqueErr); ok && tv == oe {
				return Bool(true)
			}
			if want >= 0 && oe.Errno == want {
				return Bool(true)
			}
			c, ok := oe.Cause.(Iface)
			if !ok || c.T == nil {
				break
			}
			v = c.V
		}
		return Bool(false)
	}
	I("errors.Is", isErr)
	I("github.com/pkg/errors.Is", isErr)
}

// ---- *os.File over the in-memory file system (OpenFile / Create / Open, Write, Read, Sync, Close, Truncate)
type fsFile struct {
	n      *fsNode
	pos    int
	app    bool
	closed bool
}

func init() {
	I := func(name string, h intrinsic) { intrinsics[name] = h }
	const (
		oWRONLY = 0x1
		oRDWR   = 0x2
		oAPPEND = 0x400
		oCREATE = 0x40
		oEXCL   = 0x80
		oTRUNC  = 0x200
	)
	open := func(e *Engine, fr *frame, p string, flag int) Value {
		f := e.fs()
		ap := f.abs(p)
		n := f.nodes[ap]
		if p == "" {
			return Tuple{(*Value)(nil), enoent(e, "open", p)}
		}
		if n == nil || !n.exists {
			if flag&oCREATE == 0 {
				return Tuple{(*Value)(nil), enoent(e, "open", p)}
			}
			dir := ap[:strings.LastIndex(ap, "/")]
			if dir == "" {
				dir = "/"
			}
			if d := f.nodes[dir]; d == nil || !d.exists || !d.isDir {
				return Tuple{(*Value)(nil), enoent(e, "open", p)}
			}
			n = &fsNode{exists: true}
			f.nodes[ap] = n
			n.mtime = intrinsics["time.Now"](e, fr, nil)
		} else if flag&oEXCL != 0 && flag&oCREATE != 0 {
			return Tuple{(*Value)(nil), mkErr("open "+p+": file exists", nil)}
		}
		if flag&oTRUNC != 0 {
			n.data = nil
			n.mtime = intrinsics["time.Now"](e, fr, nil)
		}
		var cell Value = &fsFile{n: n, app: flag&oAPPEND != 0}
		return Tuple{&cell, Iface{}}
	}
	I("os.OpenFile", func(e *Engine, fr *frame, a []Value) Value {
		fl := a[1].(Term)
		if !fl.IsConst() {
			unsupported("os.OpenFile with symbolic flags")
		}
		return open(e, fr, concreteStr(a[0]), fl.Int())
	})
	I("os.Create", func(e *Engine, fr *frame, a []Value) Value { return open(e, fr, concreteStr(a[0]), oRDWR|oCREATE|oTRUNC) })
	I("os.Open", func(e *Engine, fr *frame, a []Value) Value { return open(e, fr, concreteStr(a[0]), 0) })
	file := func(v Value) *fsFile { return (*(v.(*Value))).(*fsFile) }
	write := func(e *Engine, fr *frame, a []Value) Value {
		f := file(a[0])
		var src []Value
		switch x := a[1].(type) {
		case Slice:
			src = x.a
		default:
			for _, b := range strBytes(x) {
				src = append(src, b)
			}
		}
		if f.closed {
			return Tuple{BV(64, 0), mkErr("write: file already closed", nil)}
		}
		if f.app {
			f.pos = len(f.n.data)
		}
		for i, b := range src {
			if f.pos+i < len(f.n.data) {
				f.n.data[f.pos+i] = b
			} else {
				f.n.data = append(f.n.data, b)
			}
		}
		f.pos += len(src)
		f.n.mtime = intrinsics["time.Now"](e, fr, nil)
		return Tuple{BV(64, int64(len(src))), Iface{}}
	}
	I("(*os.File).Write", write)
	I("(*os.File).WriteString", write)
	I("(*os.File).Sync", func(e *Engine, fr *frame, a []Value) Value { return Iface{} })
	I("(*os.File).Close", func(e *Engine, fr *frame, a []Value) Value { file(a[0]).closed = true; return Iface{} })
	I("(*os.File).Truncate", func(e *Engine, fr *frame, a []Value) Value {
		f := file(a[0])
		sz := a[1].(Term)
		if !sz.IsConst() || sz.Int() > len(f.n.data) {
			unsupported("(*os.File).Truncate to a symbolic or larger size")
		}
		f.n.data = f.n.data[:sz.Int()]
		return Iface{}
	})
	I("(*os.File).Read", func(e *Engine, fr *frame, a []Value) Value {
		f := file(a[0])
		dst := a[1].(Slice)
		n := 0
		for n < len(dst.a) && f.pos < len(f.n.data) {
			dst.a[n] = f.n.data[f.pos]
			n++
			f.pos++
		}
		if n == 0 && len(dst.a) > 0 {
			return Tuple{BV(64, 0), e.ioEOF()}
		}
		return Tuple{BV(64, int64(n)), Iface{}}
	})
	I("(*os.File).Name", func(e *Engine, fr *frame, a []Value) Value { return "file" })
}
