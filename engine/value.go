package main

import (
	"fmt"
	"go/types"

	"golang.org/x/tools/go/ssa"
)

type Value interface{}

type Struct []Value
type Array []Value
type Slice struct{ a []Value } // a==nil => nil slice
type SymStr []Term             // string with symbolic bytes (concrete length)
type Iface struct {
	T types.Type // nil => nil interface
	V Value
}
type MapV struct {
	m    map[interface{}]Value
	keys map[interface{}]Value
	ord  []interface{}
}
type Closure struct {
	Fn  *ssa.Function
	Env []Value
}
type Tuple []Value
type Bound struct { // bound method closure
	Fn   *ssa.Function
	Recv Value
}

// reflect model
type RValue struct {
	T    types.Type
	P    *Value // location if addressable / indirect
	V    Value  // value if not addressable
	Addr bool
}
type RType struct{ T types.Type }

type OpaqueErr struct {
	Msg   string
	Cause Value
	Errno int
}

type EngineErr struct{ Msg string }

func unsupported(f string, a ...interface{}) { panic(EngineErr{fmt.Sprintf(f, a...)}) }

type goPanic struct{ V Value }
type infeasible struct{}

func intW(t types.Type) (int, bool) { // width, signed
	switch b := t.Underlying().(type) {
	case *types.Basic:
		switch b.Kind() {
		case types.Bool, types.UntypedBool:
			return 0, false
		case types.Int8:
			return 8, true
		case types.Int16:
			return 16, true
		case types.Int32, types.UntypedRune:
			return 32, true
		case types.Int64, types.Int, types.UntypedInt:
			return 64, true
		case types.Uint8:
			return 8, false
		case types.Uint16:
			return 16, false
		case types.Uint32:
			return 32, false
		case types.Uint64, types.Uint, types.Uintptr:
			return 64, false
		case types.Float64, types.UntypedFloat:
			return 64, false
		case types.Float32:
			return 32, false
		}
	}
	return -1, false
}

func isString(t types.Type) bool {
	b, ok := t.Underlying().(*types.Basic)
	return ok && b.Info()&types.IsString != 0
}

func zero(t types.Type) Value {
	switch u := t.Underlying().(type) {
	case *types.Basic:
		if u.Kind() == types.String || u.Kind() == types.UntypedString {
			return ""
		}
		if u.Kind() == types.UnsafePointer {
			return (*Value)(nil)
		}
		if u.Kind() == types.UntypedNil {
			return nil
		}
		w, _ := intW(t)
		if w == 0 {
			return Bool(false)
		}
		if w < 0 {
			unsupported("zero of %v", t)
		}
		return BV(w, 0)
	case *types.Struct:
		if isReflectValue(t) {
			return RValue{}
		}
		s := make(Struct, u.NumFields())
		for i := range s {
			s[i] = zero(u.Field(i).Type())
		}
		return s
	case *types.Array:
		a := make(Array, u.Len())
		for i := range a {
			a[i] = zero(u.Elem())
		}
		return a
	case *types.Pointer:
		return (*Value)(nil)
	case *types.Slice:
		return Slice{}
	case *types.Interface:
		return Iface{}
	case *types.Map:
		return (*MapV)(nil)
	case *types.Signature:
		return nil
	case *types.Chan:
		return (*ChanV)(nil)
	case *types.Tuple:
		tu := make(Tuple, u.Len())
		for i := range tu {
			tu[i] = zero(u.At(i).Type())
		}
		return tu
	}
	unsupported("zero of %v", t)
	return nil
}

func isReflectValue(t types.Type) bool {
	n, ok := t.(*types.Named)
	return ok && n.Obj().Pkg() != nil && n.Obj().Pkg().Path() == "reflect" && n.Obj().Name() == "Value"
}

func copyVal(v Value) Value {
	switch x := v.(type) {
	case Struct:
		c := make(Struct, len(x))
		for i := range x {
			c[i] = copyVal(x[i])
		}
		return c
	case Array:
		c := make(Array, len(x))
		for i := range x {
			c[i] = copyVal(x[i])
		}
		return c
	}
	return v
}

// store copies v into *addr preserving the identity of sub-cells.
func store(addr *Value, v Value) {
	switch x := v.(type) {
	case Struct:
		if cur, ok := (*addr).(Struct); ok && len(cur) == len(x) {
			for i := range x {
				store(&cur[i], x[i])
			}
			return
		}
		*addr = copyVal(v)
	case Array:
		if cur, ok := (*addr).(Array); ok && len(cur) == len(x) {
			for i := range x {
				store(&cur[i], x[i])
			}
			return
		}
		*addr = copyVal(v)
	default:
		*addr = v
	}
}

func strBytes(v Value) []Term {
	switch s := v.(type) {
	case string:
		out := make([]Term, len(s))
		for i := 0; i < len(s); i++ {
			out[i] = BV(8, int64(s[i]))
		}
		return out
	case SymStr:
		return []Term(s)
	}
	panic(fmt.Sprintf("strBytes %T", v))
}
func mkStr(b []Term) Value {
	buf := make([]byte, len(b))
	for i, t := range b {
		if !t.IsConst() {
			return SymStr(append([]Term(nil), b...))
		}
		buf[i] = byte(t.C.Uint64())
	}
	return string(buf)
}
func strLen(v Value) int {
	switch s := v.(type) {
	case string:
		return len(s)
	case SymStr:
		return len(s)
	}
	panic("strLen")
}
