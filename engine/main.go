// gosym — bounded symbolic executor for go/ssa, used by /verif/check.
//
// It loads a package of /repo (current working tree) together with overlay harness files,
// builds SSA, executes harness functions symbolically (re-execution DFS over a decision log),
// discharges verifrt.Assert obligations with an SMT solver and writes a JSON result.
package main

import (
	"encoding/json"
	"flag"
	"fmt"
	"go/types"
	"os"
	"path/filepath"
	"runtime"
	"runtime/debug"
	"runtime/pprof"
	"sort"
	"strconv"
	"strings"
	"time"

	"golang.org/x/tools/go/packages"
	"golang.org/x/tools/go/ssa"
	"golang.org/x/tools/go/ssa/ssautil"
)

var repoPrefix = "github.com/xelaj/mtproto"

func isRepoPkg(p string) bool {
	return strings.HasPrefix(p, repoPrefix) || p == "github.com/xelaj/go-dry" || strings.HasPrefix(p, "github.com/xelaj/go-dry/") ||
		p == "github.com/fatih/structtag" || p == "github.com/xelaj/errs"
}

// std packages whose init is run (pure ones); everything else is not initialised.
var pureInit = map[string]bool{}

type multiFlag []string

func (m *multiFlag) String() string     { return strings.Join(*m, ";") }
func (m *multiFlag) Set(s string) error { *m = append(*m, s); return nil }

type OblResult struct {
	Tag          string `json:"tag"`
	Discharged   int    `json:"discharged"`
	Ground       int    `json:"ground"`
	Violated     int    `json:"violated"`
	Inconclusive int    `json:"inconclusive"`
	// occurrences not sent to the solver because this tag already has three counterexamples in this run
	NotDecided int               `json:"not_decided_after_violation,omitempty"`
	Cex        []Cex             `json:"cex,omitempty"`
	Notes      []string          `json:"notes,omitempty"`
	Witness    map[string]string `json:"witness,omitempty"`
}
type Cex struct {
	Path   string   `json:"path"`
	Vector []uint64 `json:"vector"`
	Kinds  []string `json:"kinds,omitempty"`
	Extra  string   `json:"extra,omitempty"`
	Ground bool     `json:"ground,omitempty"`
	Sched  []int    `json:"schedule,omitempty"`
}
type RunResult struct {
	Fn          string       `json:"fn"`
	Paths       int          `json:"paths"`
	Infeasible  int          `json:"infeasible"`
	Instrs      int          `json:"instrs"`
	Obligations []*OblResult `json:"obligations"`
	Covers      []string     `json:"covers"`
	Errors      []string     `json:"errors"`
	Queries     int          `json:"queries"`
	SolverS     float64      `json:"solver_s"`
	WallS       float64      `json:"wall_s"`
	Funcs       []string     `json:"funcs"`
	Stubs       []string     `json:"stubs"`
	Truncated   bool         `json:"truncated"`
	Unwind      []string     `json:"unwind,omitempty"`
	Unknowns    int          `json:"feasibility_unknowns"`
	Observed    []string     `json:"observed,omitempty"`
	Notes       []string     `json:"notes,omitempty"`
	Sampled     int          `json:"sizes_sampled"`
	SizeCapped  int          `json:"sizes_capped"`
}
type Output struct {
	LoadS   float64      `json:"load_s"`
	InitS   float64      `json:"init_s"`
	Solver  string       `json:"solver"`
	Runs    []*RunResult `json:"runs"`
	Fatal   string       `json:"fatal,omitempty"`
	InitErr []string     `json:"init_errors,omitempty"`
}

var optMaxNlz = 2
var optUnwind = 0
var optVector []uint64 // concrete-vector mode: draws return these values

func main() {
	dir := flag.String("dir", "/repo", "module directory")
	pkgPat := flag.String("pkg", ".", "package dir relative to -dir")
	harness := flag.String("harness", "", "comma separated harness .go files (overlayed into the package)")
	rtSym := flag.String("rt", "/verif/rt/sym.go", "verifrt (symbolic mode) source")
	rtRel := flag.String("rtdir", "internal/verifrt", "where verifrt is overlayed, relative to -dir")
	extraOverlay := flag.String("overlay", "", "extra overlays virtual=real,virtual=real")
	var runs multiFlag
	flag.Var(&runs, "run", "harness call, e.g. H_C05_ige(4); repeatable")
	solverBin := flag.String("solver", "z3", "solver: z3 | z3-new | cvc5 | cvc5-int")
	trace := flag.Bool("trace", false, "trace")
	maxPaths := flag.Int("maxpaths", 200000, "")
	qtimeout := flag.Int("qtimeout", 60000, "per query timeout ms")
	out := flag.String("out", "", "result json")
	unwind := flag.Int("unwind", 256, "unwinding bound: decisions of one symbolic branch per function activation on one path")
	wallLimit := flag.Int("walllimit", 0, "per run wall limit seconds (0 = none); hitting it marks the run truncated")
	vec := flag.String("vector", "", "concrete vector json file: run harness concretely")
	flag.IntVar(&optMaxNlz, "maxnlz", 2, "max leading zero bytes explored for big.Int.Bytes")
	cpuprof := flag.String("cpuprofile", "", "")
	flag.Parse()
	if *cpuprof != "" {
		pf, _ := os.Create(*cpuprof)
		pprof.StartCPUProfile(pf)
		defer pprof.StopCPUProfile()
	}

	output := &Output{Solver: *solverBin}
	writeOut := func() {
		b, _ := json.MarshalIndent(output, "", " ")
		if *out != "" {
			os.WriteFile(*out, b, 0644)
		} else {
			os.Stdout.Write(b)
			fmt.Println()
		}
	}
	fatal := func(f string, a ...interface{}) {
		output.Fatal = fmt.Sprintf(f, a...)
		writeOut()
		fmt.Fprintln(os.Stderr, "gosym fatal:", output.Fatal)
		os.Exit(2)
	}
	if *vec != "" {
		b, err := os.ReadFile(*vec)
		if err != nil {
			fatal("vector: %v", err)
		}
		if err := json.Unmarshal(b, &optVector); err != nil {
			fatal("vector: %v", err)
		}
		if optVector == nil {
			optVector = []uint64{}
		}
	}

	t0 := time.Now()
	overlay := map[string][]byte{}
	rtsrc, err := os.ReadFile(*rtSym)
	if err != nil {
		fatal("rt: %v", err)
	}
	overlay[filepath.Join(*dir, *rtRel, "rt.go")] = rtsrc
	if *harness != "" {
		for i, h := range strings.Split(*harness, ",") {
			src, err := os.ReadFile(h)
			if err != nil {
				fatal("harness: %v", err)
			}
			overlay[filepath.Join(*dir, *pkgPat, fmt.Sprintf("zz_verif_h%d.go", i))] = src
		}
	}
	if *extraOverlay != "" {
		for _, kv := range strings.Split(*extraOverlay, ",") {
			p := strings.SplitN(kv, "=", 2)
			src, err := os.ReadFile(p[1])
			if err != nil {
				fatal("overlay: %v", err)
			}
			overlay[p[0]] = src
		}
	}
	cfg := &packages.Config{
		Mode:       packages.LoadAllSyntax,
		Dir:        *dir,
		Env:        append(os.Environ(), "GOFLAGS=-mod=mod", "GOPROXY=off", "GOSUMDB=off", "GOTOOLCHAIN=local"),
		Overlay:    overlay,
		BuildFlags: []string{"-tags=verif"},
	}
	pat := "./" + *pkgPat
	pkgs, err := packages.Load(cfg, pat)
	if err != nil {
		fatal("load: %v", err)
	}
	nerr := 0
	var errs []string
	packages.Visit(pkgs, nil, func(p *packages.Package) {
		for _, e := range p.Errors {
			nerr++
			errs = append(errs, e.Error())
		}
	})
	if nerr > 0 {
		fatal("package errors: %s", strings.Join(errs, "; "))
	}
	prog, spkgs := ssautil.AllPackages(pkgs, ssa.InstantiateGenerics)
	prog.Build()
	mainPkg := spkgs[0]
	pkgs, spkgs, cfg = nil, nil, nil
	runtime.GC()
	debug.SetGCPercent(400)
	output.LoadS = time.Since(t0).Seconds()

	e := newEngine(prog)
	e.unwindBound = *unwind
	e.trace = *trace
	e.solver = NewSolver(*solverBin, *qtimeout)
	defer e.solver.Close()

	// run package inits of the repository (concretely); globals persist across paths.
	tInit := time.Now()
	e.solver.Push()
	inited := map[*ssa.Package]bool{}
	var initPkg func(p *ssa.Package)
	initPkg = func(p *ssa.Package) {
		if inited[p] {
			return
		}
		inited[p] = true
		path := p.Pkg.Path()
		if !isRepoPkg(path) && !pureInit[path] {
			return
		}
		for _, imp := range p.Pkg.Imports() {
			if ip := prog.Package(imp); ip != nil {
				initPkg(ip)
			}
		}
		func() {
			defer func() {
				if r := recover(); r != nil {
					output.InitErr = append(output.InitErr, fmt.Sprintf("init of %s: %v", path, describePanic(r)))
				}
			}()
			e.initMode = true
			e.runFunction(p.Func("init"), nil, nil)
		}()
		e.initMode = false
	}
	initPkg(mainPkg)
	e.solver.Pop()
	output.InitS = time.Since(tInit).Seconds()

	for _, r := range runs {
		for _, one := range strings.Split(r, ";") {
			one = strings.TrimSpace(one)
			if one == "" {
				continue
			}
			name, args := parseCall(one)
			f := mainPkg.Func(name)
			if f == nil {
				output.Runs = append(output.Runs, &RunResult{Fn: one, Errors: []string{"no such harness function"}})
				continue
			}
			rr := e.runHarness(f, one, args, *maxPaths, time.Duration(*wallLimit)*time.Second)
			output.Runs = append(output.Runs, rr)
			writeOut()
		}
	}
	writeOut()
}

func parseCall(s string) (string, []int64) {
	i := strings.Index(s, "(")
	if i < 0 {
		return s, nil
	}
	name := s[:i]
	inner := strings.TrimSuffix(s[i+1:], ")")
	var args []int64
	for _, a := range strings.Split(inner, ",") {
		a = strings.TrimSpace(a)
		if a == "" {
			continue
		}
		v, err := strconv.ParseInt(a, 0, 64)
		if err != nil {
			panic("bad harness arg " + a)
		}
		args = append(args, v)
	}
	return name, args
}

func describePanic(r interface{}) string {
	switch x := r.(type) {
	case EngineErr:
		return "unsupported: " + x.Msg
	case goPanic:
		return "go panic: " + showVal(x.V)
	case infeasible:
		return "infeasible"
	}
	return fmt.Sprint(r)
}

func showVal(v Value) string {
	switch x := v.(type) {
	case Iface:
		if x.T == nil {
			return "nil"
		}
		if oe, ok := x.V.(*OpaqueErr); ok {
			return "error(" + oe.Msg + ")"
		}
		return x.T.String() + ":" + showVal(x.V)
	case string:
		return strconv.Quote(x)
	case Term:
		return x.S()
	case *Value:
		if x == nil {
			return "nil-ptr"
		}
		return "&" + showVal(*x)
	case Struct:
		return fmt.Sprintf("struct{%d fields}", len(x))
	}
	return fmt.Sprintf("%T", v)
}

func (e *Engine) runHarness(f *ssa.Function, label string, iargs []int64, maxPaths int, wall time.Duration) *RunResult {
	rr := &RunResult{Fn: label}
	t0 := time.Now()
	e.resetRun()
	q0, s0 := e.solver.Queries, e.solver.Time
	var args []Value
	for i, p := range f.Params {
		if i >= len(iargs) {
			rr.Errors = append(rr.Errors, "missing harness argument")
			return rr
		}
		w, _ := intW(p.Type())
		if w == 0 {
			args = append(args, Bool(iargs[i] != 0))
		} else {
			args = append(args, BV(w, iargs[i]))
		}
	}
	i0 := e.Instrs
	e.pathDeadline = time.Time{}
	if wall > 0 {
		e.pathDeadline = t0.Add(wall + wall/4)
	}
	for {
		e.Paths++
		e.beginPath()
		e.solver.Push()
		outcome := ""
		func() {
			defer func() {
				if r := recover(); r != nil {
					switch x := r.(type) {
					case infeasible:
						outcome = "infeasible"
					case EngineErr:
						outcome = "unsupported: " + x.Msg
					case goPanic:
						outcome = "panic escaped harness: " + showVal(x.V)
					case pathAbort:
						outcome = "abort: " + x.why
					case unwindAbort:
						outcome = "unwind"
						rr.Truncated = true
						rr.Unwind = append(rr.Unwind, x.why)
					default:
						panic(r)
					}
				}
			}()
			e.runFunction(f, args, nil)
		}()
		e.endPath()
		e.solver.Pop()
		if os.Getenv("GOSYM_DEBUG") != "" && e.Paths < 40 {
			fmt.Fprintf(os.Stderr, "path %s -> %q (last fn %s)\n", e.pathString(), outcome, e.curFn)
		}
		switch {
		case outcome == "", outcome == "unwind":
		case outcome == "infeasible":
			e.Paths--
			rr.Infeasible++
		default:
			if len(rr.Errors) < 20 {
				rr.Errors = append(rr.Errors, fmt.Sprintf("path %s: %s", e.pathString(), outcome))
			}
		}
		if !e.nextPath() {
			break
		}
		if e.Paths >= maxPaths || (wall > 0 && time.Since(t0) > wall) {
			rr.Truncated = true
			break
		}
	}
	rr.Paths = e.Paths
	rr.Instrs = e.Instrs - i0
	rr.Queries = e.solver.Queries - q0
	rr.SolverS = (e.solver.Time - s0).Seconds()
	rr.WallS = time.Since(t0).Seconds()
	if os.Getenv("GOSYM_DEBUG") != "" {
		fmt.Fprintf(os.Stderr, "%s: wall %.2f solver %.2f io %.2f defs %d decls %d\n", label, rr.WallS, rr.SolverS, ioTime.Seconds(), len(defs), len(decls))
	}
	rr.Unknowns = e.Unknowns
	rr.Observed = e.observed
	rr.Sampled, rr.SizeCapped = e.sampled, e.sizeCapped
	for k := range e.notes {
		rr.Notes = append(rr.Notes, k)
	}
	sort.Strings(rr.Notes)
	var tags []string
	for t := range e.obl {
		tags = append(tags, t)
	}
	sort.Strings(tags)
	for _, t := range tags {
		rr.Obligations = append(rr.Obligations, e.obl[t])
	}
	for k := range e.covers {
		rr.Covers = append(rr.Covers, k)
	}
	sort.Strings(rr.Covers)
	for k := range e.FuncsSeen {
		if strings.Contains(k, repoPrefix) && !strings.Contains(k, "verifrt") {
			rr.Funcs = append(rr.Funcs, k)
		}
	}
	sort.Strings(rr.Funcs)
	for k := range e.StubsSeen {
		rr.Stubs = append(rr.Stubs, k)
	}
	sort.Strings(rr.Stubs)
	return rr
}

var _ = types.Typ
