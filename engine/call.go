package main

import (
	"fmt"
	"strings"
	"go/token"
	"go/types"
	"math"
	"unicode/utf8"

	"golang.org/x/tools/go/ssa"
)

func mathFloat64bits(f float64) uint64 { return math.Float64bits(f) }
func decodeRune(b []byte) (rune, int)  { return utf8.DecodeRune(b) }

func convFloatConst(t Term, ff, tf, fs bool, fw, tw int) Value {
	if ff && !tf {
		f := math.Float64frombits(t.C.Uint64())
		return BV(tw, int64(f))
	}
	if !ff && tf {
		var f float64
		if fs {
			f = float64(t.Signed().Int64())
		} else {
			f = float64(t.C.Uint64())
		}
		return BVu(64, math.Float64bits(f))
	}
	unsupported("float32 conversion")
	return nil
}

func floatOp(op token.Token, x, y Term) Value {
	if x.IsConst() && y.IsConst() {
		a, b := math.Float64frombits(x.C.Uint64()), math.Float64frombits(y.C.Uint64())
		switch op {
		case token.EQL:
			return Bool(a == b)
		case token.NEQ:
			return Bool(a != b)
		case token.LSS:
			return Bool(a < b)
		case token.ADD:
			return BVu(64, math.Float64bits(a+b))
		case token.MUL:
			return BVu(64, math.Float64bits(a*b))
		}
	}
	// symbolic: only comparison with +0
	if (op == token.EQL || op == token.NEQ) && y.IsConst() && y.C.Sign() == 0 {
		isz := Eq(And(x, BVu(64, 0x7fffffffffffffff)), BV(64, 0))
		if op == token.NEQ {
			return Not(isz)
		}
		return isz
	}
	unsupported("symbolic float op %v", op)
	return nil
}

// prepareCall evaluates callee and args.
func (e *Engine) prepareCall(fr *frame, c *ssa.CallCommon) (Value, []Value) {
	var args []Value
	var fn Value
	if c.IsInvoke() {
		recv := e.get(fr, c.Value).(Iface)
		if recv.T == nil {
			e.goPanicStr("nil interface method call " + c.Method.Name())
		}
		fn = e.lookupMethod(recv, c.Method)
		args = append(args, recv.V)
	} else {
		fn = e.get(fr, c.Value)
	}
	for _, a := range c.Args {
		args = append(args, e.get(fr, a))
	}
	return fn, args
}

type specialMethod struct {
	name string
}

func (e *Engine) lookupMethod(recv Iface, m *types.Func) Value {
	switch recv.V.(type) {
	case RType:
		return specialMethod{"reflect.Type." + m.Name()}
	case *OpaqueErr:
		return specialMethod{"opaqueErr." + m.Name()}
	case *aesBlock:
		return specialMethod{"aesBlock." + m.Name()}
	case *ctxStub:
		return specialMethod{"ctxStub." + m.Name()}
	case *hashStub:
		return specialMethod{"hashStub." + m.Name()}
	case *fsNode:
		return specialMethod{"fsFileInfo." + m.Name()}
	}
	ms := e.prog.MethodSets.MethodSet(recv.T)
	sel := ms.Lookup(m.Pkg(), m.Name())
	if sel == nil {
		unsupported("method %s not found on %v", m.Name(), recv.T)
	}
	f := e.prog.MethodValue(sel)
	if f == nil {
		unsupported("no method value %s on %v", m.Name(), recv.T)
	}
	return f
}

func (e *Engine) callInstr(fr *frame, c *ssa.CallCommon, in ssa.Value) Value {
	fn, args := e.prepareCall(fr, c)
	return e.callFn(fr, fn, args, in)
}

func (e *Engine) callFn(fr *frame, fn Value, args []Value, in ssa.Value) Value {
	switch f := fn.(type) {
	case *ssa.Function:
		if f.Name() == "init" && f.Pkg != nil && !isRepoPkg(f.Pkg.Pkg.Path()) {
			return nil
		}
		if hk, ok := e.hooks[f.String()]; ok {
			e.StubsSeen["hook:"+f.String()] = true
			return e.callFn(fr, hk, args, nil)
		}
		if h, ok := intrinsics[f.String()]; ok {
			e.StubsSeen[f.String()] = true
			return h(e, fr, args)
		}
		if f.Pkg != nil && strings.HasSuffix(f.Pkg.Pkg.Path(), "/internal/verifrt") {
			if f.Name() == "init" {
				return nil
			}
			h, ok := rtIntrinsics[f.Name()]
			if !ok {
				unsupported("verifrt.%s has no engine model", f.Name())
			}
			return h(e, fr, args)
		}
		if f.Pkg != nil && f.Pkg.Pkg.Path() == "math/big" && f.Signature.Recv() != nil {
			unsupported("math/big method without an engine model: %s", f.String())
		}
		if f.Pkg != nil {
			if h, ok := pkgStubs[f.Pkg.Pkg.Path()]; ok {
				e.StubsSeen[f.String()] = true
				return h(e, f, args)
			}
		} else if f.Origin() != nil && f.Origin().Pkg != nil {
			if h, ok := pkgStubs[f.Origin().Pkg.Pkg.Path()]; ok {
				e.StubsSeen[f.String()] = true
				return h(e, f, args)
			}
		}
		return e.runFunction(f, args, nil)
	case *Closure:
		return e.runFunction(f.Fn, args, f.Env)
	case nativeFunc:
		return f(e, fr, args)
	case *ssa.Builtin:
		return e.builtin(fr, f, args, in)
	case specialMethod:
		h, ok := intrinsics[f.name]
		if !ok {
			unsupported("special method %s", f.name)
		}
		e.StubsSeen[f.name] = true
		return h(e, fr, args)
	case nil:
		e.goPanicStr("call of nil func")
	}
	unsupported("call of %T", fn)
	return nil
}

func (e *Engine) builtin(fr *frame, b *ssa.Builtin, args []Value, in ssa.Value) Value {
	switch b.Name() {
	case "clear":
		switch x := args[0].(type) {
		case Slice:
			for i := range x.a {
				store(&x.a[i], zeroLike(x.a[i]))
			}
			return nil
		case *MapV:
			if x != nil {
				x.m = map[interface{}]Value{}
				x.keys = map[interface{}]Value{}
				x.ord = nil
			}
			return nil
		}
	case "close":
		c, _ := args[0].(*ChanV)
		if c == nil {
			e.goPanicStr("close of nil channel")
		}
		if c.closed {
			e.goPanicStr("close of closed channel")
		}
		c.closed = true
		return nil
	case "len":
		switch x := args[0].(type) {
		case *ChanV:
			if x == nil {
				return BV(64, 0)
			}
			return BV(64, int64(len(x.buf)))
		case Slice:
			return BV(64, int64(len(x.a)))
		case string, SymStr:
			return BV(64, int64(strLen(x)))
		case Array:
			return BV(64, int64(len(x)))
		case *MapV:
			if x == nil {
				return BV(64, 0)
			}
			return BV(64, int64(len(x.m)))
		case *Value:
			return BV(64, int64(len((*x).(Array))))
		}
	case "cap":
		switch x := args[0].(type) {
		case Slice:
			return BV(64, int64(cap(x.a)))
		case Array:
			return BV(64, int64(len(x)))
		}
	case "append":
		s := args[0].(Slice)
		var add []Value
		switch t := args[1].(type) {
		case Slice:
			add = t.a
		case string, SymStr:
			for _, b := range strBytes(t) {
				add = append(add, b)
			}
		}
		if len(add) == 0 {
			return s
		}
		out := s.a
		for _, v := range add {
			out = append(out, copyVal(v))
		}
		return Slice{out}
	case "copy":
		d := args[0].(Slice)
		var src []Value
		switch t := args[1].(type) {
		case Slice:
			src = t.a
		case string, SymStr:
			for _, b := range strBytes(t) {
				src = append(src, b)
			}
		}
		n := len(d.a)
		if len(src) < n {
			n = len(src)
		}
		tmp := make([]Value, n)
		for i := 0; i < n; i++ {
			tmp[i] = copyVal(src[i])
		}
		for i := 0; i < n; i++ {
			store(&d.a[i], tmp[i])
		}
		return BV(64, int64(n))
	case "delete":
		m := args[0].(*MapV)
		if m != nil {
			delete(m.m, mapKey(args[1]))
		}
		return nil
	case "recover":
		// find the panicking frame: the deferred closure is called from runDefers of its parent frame.
		p := e.curPanicFrame
		if p != nil && p.panicking != nil {
			v := p.panicking.V
			p.panicking = nil
			p.recovered = true
			return v
		}
		return Iface{}
	case "print", "println":
		return nil
	case "ssa:wrapnilchk":
		if p, ok := args[0].(*Value); ok && p == nil {
			e.goPanicStr("value method " + strVal(args[1]) + "." + strVal(args[2]) + " called using nil pointer")
		}
		return args[0]
	case "String": // unsafe.String(ptr, len)
		n := e.concretize(args[1].(Term), 0, 1<<20)
		if n == 0 {
			return ""
		}
		ref, ok := e.elemOf[args[0].(*Value)]
		if !ok || ref.i+n > len(ref.arr) {
			unsupported("unsafe.String of untracked pointer")
		}
		bs := make([]Term, n)
		for i := range bs {
			bs[i] = ref.arr[ref.i+i].(Term)
		}
		return mkStr(bs)
	case "StringData": // unsafe.StringData(s)
		bs := strBytes(args[0])
		if len(bs) == 0 {
			return (*Value)(nil)
		}
		arr := make([]Value, len(bs))
		for i := range bs {
			arr[i] = bs[i]
		}
		e.elemOf[&arr[0]] = elemRef{arr, 0}
		return &arr[0]
	case "Slice": // unsafe.Slice(ptr, len)
		n := e.concretize(args[1].(Term), 0, 1<<20)
		p := args[0].(*Value)
		if p == nil {
			return Slice{}
		}
		ref, ok := e.elemOf[p]
		if !ok || ref.i+n > len(ref.arr) {
			unsupported("unsafe.Slice of untracked pointer")
		}
		return Slice{ref.arr[ref.i : ref.i+n : ref.i+n]}
	case "SliceData":
		sl := args[0].(Slice)
		if cap(sl.a) == 0 {
			return (*Value)(nil)
		}
		a := sl.a[:cap(sl.a)]
		e.elemOf[&a[0]] = elemRef{a, 0}
		return &a[0]
	case "min", "max":
		// integer operands only (floats and strings: unsupported, never guessed)
		bt, ok := in.Type().Underlying().(*types.Basic)
		if !ok || bt.Info()&types.IsInteger == 0 {
			unsupported("min/max of %s", in.Type())
		}
		unsigned := bt.Info()&types.IsUnsigned != 0
		r, ok := args[0].(Term)
		if !ok {
			unsupported("min/max operand %T", args[0])
		}
		for _, a := range args[1:] {
			x, ok := a.(Term)
			if !ok {
				unsupported("min/max operand %T", a)
			}
			var less Term // x < r
			if unsigned {
				less = Ult(x, r)
			} else {
				less = Slt(x, r)
			}
			if b.Name() == "min" {
				r = Ite(less, x, r)
			} else {
				r = Ite(less, r, x)
			}
		}
		return r
	}
	unsupported("builtin %s(%T)", b.Name(), args[0])
	return nil
}

var _ = fmt.Sprint

// zeroLike: the zero value with the shape of v (used by the clear builtin)
func zeroLike(v Value) Value {
	switch x := v.(type) {
	case Term:
		if x.W == 0 {
			return Bool(false)
		}
		return BV(x.W, 0)
	case string, SymStr:
		return ""
	case Struct:
		out := make(Struct, len(x))
		for i := range x {
			out[i] = zeroLike(x[i])
		}
		return out
	case Array:
		out := make(Array, len(x))
		for i := range x {
			out[i] = zeroLike(x[i])
		}
		return out
	case *Value:
		return (*Value)(nil)
	case Iface:
		return Iface{}
	case Slice:
		return Slice{}
	case *MapV:
		return (*MapV)(nil)
	case *ChanV:
		return (*ChanV)(nil)
	}
	return nil
}
