package main

import (
	"go/types"

	"golang.org/x/tools/go/ssa"
)

// compress/gzip model: the compressed form of x is the marker "GZ1:" followed by x itself (identity coding).
// NewReader fails on data without the marker.  Real gzip is used when the harness replays natively.
type gzWriter struct {
	dst  Iface
	data []Value
}
type gzReader struct {
	data    []Value
	pos     int
	damaged bool // valid header, damaged body/trailer: after the data, every Read is (0, sticky non-EOF error)
}

var gzWriterT = types.NewNamed(types.NewTypeName(0, nil, "gzWriter", nil), types.NewStruct(nil, nil), nil)
var gzMarker = []byte("GZ1:")

func (e *Engine) invokeMethod(fr *frame, recv Iface, name string, args []Value) Value {
	ms := e.prog.MethodSets.MethodSet(recv.T)
	for i := 0; i < ms.Len(); i++ {
		sel := ms.At(i)
		if sel.Obj().Name() == name {
			f := e.prog.MethodValue(sel)
			return e.callFn(fr, f, append([]Value{recv.V}, args...), nil)
		}
	}
	unsupported("method %s not found on %v", name, recv.T)
	return nil
}

func init() {
	intrinsics["compress/gzip.NewWriter"] = func(e *Engine, fr *frame, a []Value) Value {
		var cell Value = &gzWriter{dst: a[0].(Iface)}
		return &cell
	}
	gw := func(a Value) *gzWriter { return (*(a.(*Value))).(*gzWriter) }
	intrinsics["(*compress/gzip.Writer).Write"] = func(e *Engine, fr *frame, a []Value) Value {
		w := gw(a[0])
		s := a[1].(Slice)
		for _, b := range s.a {
			w.data = append(w.data, b)
		}
		return Tuple{BV(64, int64(len(s.a))), Iface{}}
	}
	flush := func(e *Engine, fr *frame, a []Value) Value {
		w := gw(a[0])
		out := make([]Value, 0, len(w.data)+4)
		for _, c := range gzMarker {
			out = append(out, BV(8, int64(c)))
		}
		out = append(out, w.data...)
		w.data = nil
		e.invokeMethod(fr, w.dst, "Write", []Value{Slice{out}})
		return Iface{}
	}
	intrinsics["(*compress/gzip.Writer).Close"] = flush
	intrinsics["(*compress/gzip.Writer).Flush"] = func(e *Engine, fr *frame, a []Value) Value { return Iface{} }
	intrinsics["compress/gzip.NewReader"] = func(e *Engine, fr *frame, a []Value) Value {
		src := a[0].(Iface)
		// drain the source with io.ReadAll semantics through its own Read method
		var all []Value
		for iter := 0; iter < 1<<20; iter++ {
			buf := make([]Value, 512)
			for i := range buf {
				buf[i] = BV(8, 0)
			}
			r := e.invokeMethod(fr, src, "Read", []Value{Slice{buf}}).(Tuple)
			n := r[0].(Term).Int()
			all = append(all, buf[:n]...)
			if errv := r[1].(Iface); errv.T != nil || n == 0 {
				break
			}
		}
		if len(all) < len(gzMarker) {
			return Tuple{(*Value)(nil), mkErr("gzip: invalid header (short)", nil)}
		}
		ok := Bool(true)
		for i, c := range gzMarker[:2] {
			ok = And(ok, Eq(all[i].(Term), BV(8, int64(c))))
		}
		ok = And(ok, Eq(all[3].(Term), BV(8, int64(gzMarker[3]))))
		good := Eq(all[2].(Term), BV(8, '1'))
		bad := Eq(all[2].(Term), BV(8, '0')) // "GZ0:": a stream cut short or with a wrong checksum
		if !e.branch(And(ok, Or(good, bad))) {
			return Tuple{(*Value)(nil), mkErr("gzip: invalid header", nil)}
		}
		var cell Value = &gzReader{data: all[len(gzMarker):], damaged: !e.branch(good)}
		return Tuple{&cell, Iface{}}
	}
	intrinsics["(*compress/gzip.Reader).Read"] = func(e *Engine, fr *frame, a []Value) Value {
		r := (*(a[0].(*Value))).(*gzReader)
		dst := a[1].(Slice)
		n := 0
		for n < len(dst.a) && r.pos < len(r.data) {
			dst.a[n] = r.data[r.pos]
			n++
			r.pos++
		}
		if n == 0 && len(dst.a) > 0 {
			if r.damaged {
				return Tuple{BV(64, 0), mkErr("gzip: invalid checksum / unexpected EOF", nil)}
			}
			return Tuple{BV(64, 0), e.ioEOF()}
		}
		return Tuple{BV(64, int64(n)), Iface{}}
	}
	intrinsics["(*compress/gzip.Reader).Close"] = func(e *Engine, fr *frame, a []Value) Value { return Iface{} }
}

// ioEOF returns the engine's sentinel for io.EOF
func (e *Engine) ioEOF() Value {
	for g, p := range e.globals {
		if g.Pkg != nil && g.Pkg.Pkg.Path() == "io" && g.Name() == "EOF" {
			return *p
		}
	}
	if pkg := e.prog.ImportedPackage("io"); pkg != nil {
		if g, ok := pkg.Members["EOF"].(*ssa.Global); ok {
			return *e.global(g)
		}
	}
	return mkErr("sentinel:io.EOF", nil)
}
