package main

import (
	"fmt"
	"go/types"
	"math/big"
)

// math/big.Int model: magnitude as a bit-vector term of a per-value width (multiple of 8), concrete sign.
// Values live in a side table keyed by the address of the big.Int cell (reset per path).
type bigVal struct {
	w   int
	t   Term
	neg bool
}

var bigTab = map[*Value]*bigVal{}

var bigIntType types.Type // set lazily from the first *big.Int seen

func bigGet(p Value) *bigVal {
	ptr, ok := p.(*Value)
	if !ok || ptr == nil {
		panic(goPanic{Iface{T: types.Typ[types.String], V: "runtime error: invalid memory address or nil pointer dereference (nil *big.Int)"}})
	}
	v, ok := bigTab[ptr]
	if !ok {
		// zero value big.Int (e.g. new(big.Int), var x big.Int)
		v = &bigVal{8, BV(8, 0), false}
		bigTab[ptr] = v
	}
	return v
}
func bigSet(p Value, v *bigVal) Value {
	ptr := p.(*Value)
	if ptr == nil {
		panic(goPanic{Iface{T: types.Typ[types.String], V: "runtime error: nil *big.Int receiver"}})
	}
	bigTab[ptr] = v
	return ptr
}

func (e *Engine) newBig(v *bigVal) *Value {
	var cell Value = Struct{Bool(false), Slice{}}
	p := &cell
	bigTab[p] = v
	return p
}

func bigConst(x *big.Int) *bigVal {
	neg := x.Sign() < 0
	m := new(big.Int).Abs(x)
	w := (m.BitLen() + 7) / 8 * 8
	if w == 0 {
		w = 8
	}
	return &bigVal{w, BVb(w, m), neg}
}

func (v *bigVal) concrete() (*big.Int, bool) {
	if !v.t.IsConst() {
		return nil, false
	}
	r := new(big.Int).Set(v.t.C)
	if v.neg {
		r.Neg(r)
	}
	return r, true
}

func unify(a, b Term) (Term, Term) {
	w := a.W
	if b.W > w {
		w = b.W
	}
	return ZExt(a, w), ZExt(b, w)
}

// trim drops known-zero high bytes of a constant magnitude (keeps widths small)
func bigNorm(v *bigVal) *bigVal {
	if v.t.IsConst() {
		c := bigConst(v.t.C)
		c.neg = v.neg && v.t.C.Sign() != 0
		return c
	}
	return v
}

func init() {
	B := func(name string, h intrinsic) { intrinsics["(*math/big.Int)."+name] = h }
	intrinsics["math/big.NewInt"] = func(e *Engine, fr *frame, a []Value) Value {
		x := a[0].(Term)
		if !x.IsConst() {
			// symbolic int64: magnitude = |x| needs sign; only non-negative symbolic supported
			if e.branch(Slt(x, BV(64, 0))) {
				unsupported("big.NewInt of negative symbolic value")
			}
			return e.newBig(&bigVal{64, x, false})
		}
		return e.newBig(bigConst(x.Signed()))
	}
	B("SetBytes", func(e *Engine, fr *frame, a []Value) Value {
		bs := sliceTerms(a[1])
		if len(bs) == 0 {
			return bigSet(a[0], &bigVal{8, BV(8, 0), false})
		}
		return bigSet(a[0], bigNorm(&bigVal{8 * len(bs), ConcatBytes(bs), false}))
	})
	B("Bytes", func(e *Engine, fr *frame, a []Value) Value {
		v := bigGet(a[0])
		if v.t.IsConst() {
			b := v.t.C.Bytes()
			out := make([]Term, len(b))
			for i := range b {
				out[i] = BV(8, int64(b[i]))
			}
			return termsSlice(out)
		}
		bs := SplitBytes(v.t)
		n := len(bs)
		maxNlz := optMaxNlz
		if maxNlz > n {
			maxNlz = n
		}
		// option i: exactly i leading zero bytes (i <= maxNlz); more leading zeros are outside the stated bound
		i := e.choose(maxNlz+1, func(i int) Term {
			c := Bool(true)
			if i < n {
				c = Not(Eq(bs[i], BV(8, 0)))
			}
			for j := 0; j < i; j++ {
				c = And(c, Eq(bs[j], BV(8, 0)))
			}
			return c
		})
		return termsSlice(bs[i:])
	})
	B("FillBytes", func(e *Engine, fr *frame, a []Value) Value {
		v := bigGet(a[0])
		buf := a[1].(Slice)
		n := len(buf.a)
		if v.w > 8*n {
			if !e.branch(Eq(Extract(v.w-1, 8*n, v.t), BV(v.w-8*n, 0))) {
				panic(goPanic{Iface{T: types.Typ[types.String], V: "math/big: buffer too small to fit value"}})
			}
		}
		if n == 0 {
			return buf
		}
		t := ZExt(v.t, 8*n)
		if v.w > 8*n {
			t = Extract(8*n-1, 0, v.t)
		}
		for i, b := range SplitBytes(t) {
			buf.a[i] = b
		}
		return buf
	})
	B("Set", func(e *Engine, fr *frame, a []Value) Value {
		v := bigGet(a[1])
		return bigSet(a[0], &bigVal{v.w, v.t, v.neg})
	})
	B("SetInt64", func(e *Engine, fr *frame, a []Value) Value {
		x := a[1].(Term)
		if !x.IsConst() {
			if e.branch(Slt(x, BV(64, 0))) {
				unsupported("big.SetInt64 of negative symbolic value")
			}
			return bigSet(a[0], &bigVal{64, x, false})
		}
		return bigSet(a[0], bigConst(x.Signed()))
	})
	B("SetUint64", func(e *Engine, fr *frame, a []Value) Value {
		return bigSet(a[0], bigNorm(&bigVal{64, a[1].(Term), false}))
	})
	B("Cmp", func(e *Engine, fr *frame, a []Value) Value {
		x, y := bigGet(a[0]), bigGet(a[1])
		if x.neg || y.neg {
			xc, ok1 := x.concrete()
			yc, ok2 := y.concrete()
			if ok1 && ok2 {
				return BV(64, int64(xc.Cmp(yc)))
			}
			unsupported("big.Cmp with negative symbolic operand")
		}
		xt, yt := unify(x.t, y.t)
		return Ite(Ult(xt, yt), BV(64, -1), Ite(Eq(xt, yt), BV(64, 0), BV(64, 1)))
	})
	B("Sign", func(e *Engine, fr *frame, a []Value) Value {
		x := bigGet(a[0])
		z := Eq(x.t, BV(x.w, 0))
		if x.neg {
			return Ite(z, BV(64, 0), BV(64, -1))
		}
		return Ite(z, BV(64, 0), BV(64, 1))
	})
	B("Int64", func(e *Engine, fr *frame, a []Value) Value {
		x := bigGet(a[0])
		t := ZExt(x.t, 64)
		if x.w > 64 {
			t = Extract(63, 0, x.t)
		}
		if x.neg {
			return Neg(t)
		}
		return t
	})
	B("Uint64", func(e *Engine, fr *frame, a []Value) Value {
		x := bigGet(a[0])
		if x.w > 64 {
			return Extract(63, 0, x.t)
		}
		return ZExt(x.t, 64)
	})
	B("BitLen", func(e *Engine, fr *frame, a []Value) Value {
		x := bigGet(a[0])
		if c, ok := x.concrete(); ok {
			return BV(64, int64(c.BitLen()))
		}
		unsupported("big.BitLen of symbolic value")
		return nil
	})
	B("String", func(e *Engine, fr *frame, a []Value) Value {
		if p, ok := a[0].(*Value); ok && p != nil {
			if c, ok := bigGet(p).concrete(); ok {
				return c.String()
			}
		}
		return "<big.Int>"
	})
	B("Text", func(e *Engine, fr *frame, a []Value) Value {
		if c, ok := bigGet(a[0]).concrete(); ok {
			return c.Text(a[1].(Term).Int())
		}
		return "<big.Int>"
	})
	B("SetString", func(e *Engine, fr *frame, a []Value) Value {
		s, ok := a[1].(string)
		if !ok {
			unsupported("big.SetString of symbolic string")
		}
		x, ok := new(big.Int).SetString(s, a[2].(Term).Int())
		if !ok {
			return Tuple{(*Value)(nil), Bool(false)}
		}
		return Tuple{bigSet(a[0], bigConst(x)), Bool(true)}
	})
}

var _ = fmt.Sprint
