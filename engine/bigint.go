package main

type bigVal struct {
	w int
	t Term
}

var bigTab = map[*Value]*bigVal{}

func init() {
	intrinsics["(*math/big.Int).SetBytes"] = func(e *Engine, fr *frame, a []Value) Value {
		z := a[0].(*Value)
		bs := sliceTerms(a[1])
		if len(bs) == 0 {
			bigTab[z] = &bigVal{8, BV(8, 0)}
		} else {
			bigTab[z] = &bigVal{8 * len(bs), ConcatBytes(bs)}
		}
		return z
	}
	intrinsics["(*math/big.Int).Bytes"] = func(e *Engine, fr *frame, a []Value) Value {
		v, ok := bigTab[a[0].(*Value)]
		if !ok {
			unsupported("Bytes of unknown big.Int")
		}
		bs := SplitBytes(v.t)
		maxNlz := optMaxNlz
		// option i: exactly i leading zero bytes (i<=maxNlz); more than maxNlz is assumed away (stated bound)
		i := e.choose(maxNlz+1, func(i int) Term {
			c := Not(Eq(bs[i], BV(8, 0)))
			for j := 0; j < i; j++ {
				c = And(c, Eq(bs[j], BV(8, 0)))
			}
			return c
		})
		return termsSlice(bs[i:])
	}
}
