package main

import (
	"fmt"
	"go/types"
	"math/big"
)

// math/big.Int model: magnitude as a bit-vector term of a per-value width (multiple of 8), concrete sign.
// Values live in a side table keyed by the address of the big.Int cell (reset per path).
type bigVal struct {
	w   int
	t   Term
	neg bool
}

var bigTab = map[*Value]*bigVal{}

var bigIntType types.Type // set lazily from the first *big.Int seen

func bigGet(p Value) *bigVal {
	ptr, ok := p.(*Value)
	if !ok || ptr == nil {
		panic(goPanic{Iface{T: types.Typ[types.String], V: "runtime error: invalid memory address or nil pointer dereference (nil *big.Int)"}})
	}
	v, ok := bigTab[ptr]
	if !ok {
		// zero value big.Int (e.g. new(big.Int), var x big.Int)
		v = &bigVal{8, BV(8, 0), false}
		bigTab[ptr] = v
	}
	return v
}
func bigSet(p Value, v *bigVal) Value {
	ptr := p.(*Value)
	if ptr == nil {
		panic(goPanic{Iface{T: types.Typ[types.String], V: "runtime error: nil *big.Int receiver"}})
	}
	bigTab[ptr] = v
	return ptr
}

func (e *Engine) newBig(v *bigVal) *Value {
	var cell Value = Struct{Bool(false), Slice{}}
	p := &cell
	bigTab[p] = v
	return p
}

func bigConst(x *big.Int) *bigVal {
	neg := x.Sign() < 0
	m := new(big.Int).Abs(x)
	w := (m.BitLen() + 7) / 8 * 8
	if w == 0 {
		w = 8
	}
	return &bigVal{w, BVb(w, m), neg}
}

func (v *bigVal) concrete() (*big.Int, bool) {
	if !v.t.IsConst() {
		return nil, false
	}
	r := new(big.Int).Set(v.t.C)
	if v.neg {
		r.Neg(r)
	}
	return r, true
}

func unify(a, b Term) (Term, Term) {
	w := a.W
	if b.W > w {
		w = b.W
	}
	return ZExt(a, w), ZExt(b, w)
}

// trim drops known-zero high bytes of a constant magnitude (keeps widths small)
func bigNorm(v *bigVal) *bigVal {
	if v.t.IsConst() {
		c := bigConst(v.t.C)
		c.neg = v.neg && v.t.C.Sign() != 0
		return c
	}
	return v
}

func init() {
	B := func(name string, h intrinsic) { intrinsics["(*math/big.Int)."+name] = h }
	intrinsics["math/big.NewInt"] = func(e *Engine, fr *frame, a []Value) Value {
		x := a[0].(Term)
		if !x.IsConst() {
			// symbolic int64: magnitude = |x| needs sign; only non-negative symbolic supported
			if e.branch(Slt(x, BV(64, 0))) {
				unsupported("big.NewInt of negative symbolic value")
			}
			return e.newBig(&bigVal{64, x, false})
		}
		return e.newBig(bigConst(x.Signed()))
	}
	B("SetBytes", func(e *Engine, fr *frame, a []Value) Value {
		bs := sliceTerms(a[1])
		if len(bs) == 0 {
			return bigSet(a[0], &bigVal{8, BV(8, 0), false})
		}
		return bigSet(a[0], bigNorm(&bigVal{8 * len(bs), ConcatBytes(bs), false}))
	})
	B("Bytes", func(e *Engine, fr *frame, a []Value) Value {
		v := bigGet(a[0])
		if v.t.IsConst() {
			b := v.t.C.Bytes()
			out := make([]Term, len(b))
			for i := range b {
				out[i] = BV(8, int64(b[i]))
			}
			return termsSlice(out)
		}
		bs := SplitBytes(v.t)
		for len(bs) > 1 && bs[0].IsConst() && bs[0].Int() == 0 { // bytes known to be zero are not part of the bound
			bs = bs[1:]
		}
		n := len(bs)
		maxNlz := optMaxNlz
		if maxNlz > n {
			maxNlz = n
		}
		// option i: exactly i leading zero bytes (i <= maxNlz); more leading zeros are outside the stated bound
		i := e.choose(maxNlz+1, func(i int) Term {
			c := Bool(true)
			if i < n {
				c = Not(Eq(bs[i], BV(8, 0)))
			}
			for j := 0; j < i; j++ {
				c = And(c, Eq(bs[j], BV(8, 0)))
			}
			return c
		})
		return termsSlice(bs[i:])
	})
	B("FillBytes", func(e *Engine, fr *frame, a []Value) Value {
		v := bigGet(a[0])
		buf := a[1].(Slice)
		n := len(buf.a)
		if v.w > 8*n {
			if !e.branch(Eq(Extract(v.w-1, 8*n, v.t), BV(v.w-8*n, 0))) {
				panic(goPanic{Iface{T: types.Typ[types.String], V: "math/big: buffer too small to fit value"}})
			}
		}
		if n == 0 {
			return buf
		}
		t := ZExt(v.t, 8*n)
		if v.w > 8*n {
			t = Extract(8*n-1, 0, v.t)
		}
		for i, b := range SplitBytes(t) {
			buf.a[i] = b
		}
		return buf
	})
	B("Set", func(e *Engine, fr *frame, a []Value) Value {
		v := bigGet(a[1])
		nv := &bigVal{v.w, v.t, v.neg}
		if m := bigMetaTab[v]; m != nil {
			bigMetaTab[nv] = &bigMeta{m.nonzero, m.red, m.sumRed}
		}
		return bigSet(a[0], nv)
	})
	B("SetInt64", func(e *Engine, fr *frame, a []Value) Value {
		x := a[1].(Term)
		if !x.IsConst() {
			if e.branch(Slt(x, BV(64, 0))) {
				unsupported("big.SetInt64 of negative symbolic value")
			}
			return bigSet(a[0], &bigVal{64, x, false})
		}
		return bigSet(a[0], bigConst(x.Signed()))
	})
	B("SetUint64", func(e *Engine, fr *frame, a []Value) Value {
		return bigSet(a[0], bigNorm(&bigVal{64, a[1].(Term), false}))
	})
	B("Cmp", func(e *Engine, fr *frame, a []Value) Value {
		x, y := bigGet(a[0]), bigGet(a[1])
		xt, yt := unify(x.t, y.t)
		// engine-side knowledge: a value known to be non-zero compared with the constant 0
		if y.t.IsConst() && y.t.C.Sign() == 0 && bigMetaTab[x] != nil && bigMetaTab[x].nonzero {
			if x.neg {
				return BV(64, -1)
			}
			return BV(64, 1)
		}
		mag := Ite(Ult(xt, yt), BV(64, -1), Ite(Eq(xt, yt), BV(64, 0), BV(64, 1)))
		switch {
		case !x.neg && !y.neg:
			return mag
		case x.neg && y.neg:
			return Neg(mag)
		case x.neg: // x <= 0 <= y
			return Ite(And(Eq(xt, BV(xt.W, 0)), Eq(yt, BV(yt.W, 0))), BV(64, 0), BV(64, -1))
		default:
			return Ite(And(Eq(xt, BV(xt.W, 0)), Eq(yt, BV(yt.W, 0))), BV(64, 0), BV(64, 1))
		}
	})
	B("Sign", func(e *Engine, fr *frame, a []Value) Value {
		x := bigGet(a[0])
		z := Eq(x.t, BV(x.w, 0))
		if bigMetaTab[x] != nil && bigMetaTab[x].nonzero {
			z = Bool(false)
		}
		if x.neg {
			return Ite(z, BV(64, 0), BV(64, -1))
		}
		return Ite(z, BV(64, 0), BV(64, 1))
	})
	B("Int64", func(e *Engine, fr *frame, a []Value) Value {
		x := bigGet(a[0])
		t := ZExt(x.t, 64)
		if x.w > 64 {
			t = Extract(63, 0, x.t)
		}
		if x.neg {
			return Neg(t)
		}
		return t
	})
	B("Uint64", func(e *Engine, fr *frame, a []Value) Value {
		x := bigGet(a[0])
		if x.w > 64 {
			return Extract(63, 0, x.t)
		}
		return ZExt(x.t, 64)
	})
	B("BitLen", func(e *Engine, fr *frame, a []Value) Value {
		x := bigGet(a[0])
		if c, ok := x.concrete(); ok {
			return BV(64, int64(c.BitLen()))
		}
		unsupported("big.BitLen of symbolic value")
		return nil
	})
	B("String", func(e *Engine, fr *frame, a []Value) Value {
		if p, ok := a[0].(*Value); ok && p != nil {
			if c, ok := bigGet(p).concrete(); ok {
				return c.String()
			}
		}
		return "<big.Int>"
	})
	B("Text", func(e *Engine, fr *frame, a []Value) Value {
		if c, ok := bigGet(a[0]).concrete(); ok {
			return c.Text(a[1].(Term).Int())
		}
		return "<big.Int>"
	})
	B("SetString", func(e *Engine, fr *frame, a []Value) Value {
		s, ok := a[1].(string)
		if !ok {
			unsupported("big.SetString of symbolic string")
		}
		x, ok := new(big.Int).SetString(s, a[2].(Term).Int())
		if !ok {
			return Tuple{(*Value)(nil), Bool(false)}
		}
		return Tuple{bigSet(a[0], bigConst(x)), Bool(true)}
	})
}

var _ = fmt.Sprint

// ---- arithmetic.  Exact on bit-vectors where that is linear (Add, Sub, comparison, Mod of a sum of two
// reduced values); Exp / Mul of two symbolic values / general Mod are uninterpreted functions with range facts.

type bigMeta struct {
	nonzero bool
	red    string // value is known to be < the modulus with this printed form
	sumRed string // value is the sum of two values reduced modulo this modulus
}

var bigMetaTab = map[*bigVal]*bigMeta{}

func metaOf(v *bigVal) *bigMeta {
	m := bigMetaTab[v]
	if m == nil {
		m = &bigMeta{}
		bigMetaTab[v] = m
	}
	return m
}

func padTo(t Term, w int) Term { return ZExt(t, w) }

func bigW(vs ...*bigVal) int {
	w := 8
	for _, v := range vs {
		if v.w > w {
			w = v.w
		}
	}
	return w
}

func init() {
	B := func(name string, h intrinsic) { intrinsics["(*math/big.Int)."+name] = h }
	concrete3 := func(vs ...*bigVal) ([]*big.Int, bool) {
		out := make([]*big.Int, len(vs))
		for i, v := range vs {
			c, ok := v.concrete()
			if !ok {
				return nil, false
			}
			out[i] = c
		}
		return out, true
	}
	B("Exp", func(e *Engine, fr *frame, a []Value) Value {
		x, y := bigGet(a[1]), bigGet(a[2])
		mp, _ := a[3].(*Value)
		if mp == nil {
			unsupported("big.Exp without modulus")
		}
		m := bigGet(mp)
		if cs, ok := concrete3(x, y, m); ok {
			return bigSet(a[0], bigConst(new(big.Int).Exp(cs[0], cs[1], cs[2])))
		}
		if x.neg || y.neg || m.neg {
			unsupported("big.Exp with negative symbolic operand")
		}
		w := bigW(x, y, m)
		name := fmt.Sprintf("modexp_%d", w)
		uf(name, []int{w, w, w}, w)
		r := App(name, w, padTo(x.t, w), padTo(y.t, w), padTo(m.t, w))
		mt := padTo(m.t, w)
		e.solver.Assert(Or(Eq(mt, BV(w, 0)), Ult(r, mt)))
		res := &bigVal{w, r, false}
		if m.w < w { // r < m < 2^m.w: the high bits are zero, keep the representation narrow
			res = &bigVal{m.w, Extract(m.w-1, 0, r), false}
		}
		metaOf(res).red = m.t.S()
		return bigSet(a[0], res)
	})
	B("Mul", func(e *Engine, fr *frame, a []Value) Value {
		x, y := bigGet(a[1]), bigGet(a[2])
		if cs, ok := concrete3(x, y); ok {
			return bigSet(a[0], bigConst(new(big.Int).Mul(cs[0], cs[1])))
		}
		neg := x.neg != y.neg
		w := x.w + y.w
		small := func(v *bigVal) bool { return v.t.IsConst() && v.t.C.BitLen() <= 32 }
		if small(x) || small(y) {
			return bigSet(a[0], &bigVal{w, Mul(padTo(x.t, w), padTo(y.t, w)), neg})
		}
		p, q := padTo(x.t, w), padTo(y.t, w)
		if p.S() > q.S() { // commutative: normalise the argument order
			p, q = q, p
		}
		name := fmt.Sprintf("bigmul_%d", w)
		uf(name, []int{w, w}, w)
		r := App(name, w, p, q)
		// multiplication is commutative: ground instance for this application (the syntactic normalisation above
		// cannot see that two differently written arguments are equal)
		if !sameT(p, q) {
			e.solver.Assert(Eq(r, App(name, w, q, p)))
		}
		return bigSet(a[0], &bigVal{w, r, neg})
	})
	B("Add", func(e *Engine, fr *frame, a []Value) Value {
		x, y := bigGet(a[1]), bigGet(a[2])
		if cs, ok := concrete3(x, y); ok {
			return bigSet(a[0], bigConst(new(big.Int).Add(cs[0], cs[1])))
		}
		if x.neg != y.neg {
			// x + (-y) = x - y
			return bigSub(e, a[0], x, &bigVal{y.w, y.t, !y.neg})
		}
		w := bigW(x, y) + 8
		res := &bigVal{w, Add(padTo(x.t, w), padTo(y.t, w)), x.neg}
		if mx, my := metaOf(x).red, metaOf(y).red; mx != "" && mx == my {
			metaOf(res).sumRed = mx
		}
		return bigSet(a[0], res)
	})
	B("Sub", func(e *Engine, fr *frame, a []Value) Value {
		x, y := bigGet(a[1]), bigGet(a[2])
		if cs, ok := concrete3(x, y); ok {
			return bigSet(a[0], bigConst(new(big.Int).Sub(cs[0], cs[1])))
		}
		return bigSub(e, a[0], x, y)
	})
	B("Mod", func(e *Engine, fr *frame, a []Value) Value {
		x, m := bigGet(a[1]), bigGet(a[2])
		if cs, ok := concrete3(x, m); ok {
			if cs[1].Sign() == 0 {
				e.goPanicStr("division by zero")
			}
			return bigSet(a[0], bigConst(new(big.Int).Mod(cs[0], cs[1])))
		}
		if x.neg || m.neg {
			unsupported("big.Mod with negative symbolic operand")
		}
		ms := m.t.S()
		if metaOf(x).red == ms {
			return bigSet(a[0], &bigVal{x.w, x.t, false})
		}
		if metaOf(x).sumRed == ms {
			w := bigW(x, m)
			xt, mt := padTo(x.t, w), padTo(m.t, w)
			res := &bigVal{w, Ite(Ult(xt, mt), xt, Sub(xt, mt)), false}
			metaOf(res).red = ms
			return bigSet(a[0], res)
		}
		w := bigW(x, m)
		name := fmt.Sprintf("bigmod_%d", w)
		uf(name, []int{w, w}, w)
		mt := padTo(m.t, w)
		r := App(name, w, padTo(x.t, w), mt)
		e.solver.Assert(Or(Eq(mt, BV(w, 0)), Ult(r, mt)))
		res := &bigVal{w, r, false}
		if m.w < w {
			res = &bigVal{m.w, Extract(m.w-1, 0, r), false}
		}
		metaOf(res).red = ms
		return bigSet(a[0], res)
	})
	B("ProbablyPrime", func(e *Engine, fr *frame, a []Value) Value {
		x := bigGet(a[0])
		if c, ok := x.concrete(); ok {
			return Bool(c.ProbablyPrime(a[1].(Term).Int()))
		}
		uf("isprime_"+fmt.Sprint(x.w), []int{x.w}, 0)
		return App("isprime_"+fmt.Sprint(x.w), 0, x.t)
	})
	B("Neg", func(e *Engine, fr *frame, a []Value) Value {
		x := bigGet(a[1])
		return bigSet(a[0], &bigVal{x.w, x.t, !x.neg})
	})
	B("Abs", func(e *Engine, fr *frame, a []Value) Value {
		x := bigGet(a[1])
		return bigSet(a[0], &bigVal{x.w, x.t, false})
	})
	B("IsInt64", func(e *Engine, fr *frame, a []Value) Value {
		x := bigGet(a[0])
		if x.w <= 63 {
			return Bool(true)
		}
		return Eq(Extract(x.w-1, 63, x.t), BV(x.w-63, 0))
	})
}

// bigSub: x - y for non-negative magnitudes with concrete signs; the sign of the result is decided by a
// fork on x < y when symbolic
func bigSub(e *Engine, dst Value, x, y *bigVal) Value {
	if x.neg != y.neg {
		// x - (-y) = x + y (signs differ): magnitude add, sign of x
		w := bigW(x, y) + 8
		return bigSet(dst, &bigVal{w, Add(padTo(x.t, w), padTo(y.t, w)), x.neg})
	}
	w := bigW(x, y)
	xt, yt := padTo(x.t, w), padTo(y.t, w)
	// range knowledge kept by the engine (from the asserted range facts of Exp/Mod results) decides the
	// comparison without a 2048-bit solver query: x reduced modulo y means x < y
	var less bool
	switch {
	case metaOf(x).red != "" && metaOf(x).red == y.t.S():
		less = true
	case metaOf(y).red != "" && metaOf(y).red == x.t.S():
		less = false
	default:
		less = e.branch(Ult(xt, yt))
	}
	if less {
		res := &bigVal{w, Sub(yt, xt), !x.neg}
		metaOf(res).nonzero = true // x < y strictly
		if r := metaOf(y).red; r != "" { // 0 < y - x <= y < m
			metaOf(res).red = r
		} else if metaOf(x).red == y.t.S() { // y is the modulus itself: 0 < y - x <= y ... and < y when x > 0
			// y - x < y only if x > 0; keep no claim
		}
		return bigSet(dst, res)
	}
	res := &bigVal{w, Sub(xt, yt), x.neg}
	// difference of a reduced value and something not larger stays reduced
	if r := metaOf(x).red; r != "" {
		metaOf(res).red = r
	}
	return bigSet(dst, res)
}

func init() {
	B := func(name string, h intrinsic) { intrinsics["(*math/big.Int)."+name] = h }
	B("SetBit", func(e *Engine, fr *frame, a []Value) Value {
		x := bigGet(a[1])
		i, b := a[2].(Term), a[3].(Term)
		if !i.IsConst() || !b.IsConst() {
			unsupported("big.SetBit with symbolic position")
		}
		if c, ok := x.concrete(); ok {
			return bigSet(a[0], bigConst(new(big.Int).SetBit(c, i.Int(), uint(b.Int()))))
		}
		w := x.w
		if i.Int() >= w {
			w = (i.Int()/8 + 1) * 8
		}
		mask := BVb(w, new(big.Int).Lsh(big.NewInt(1), uint(i.Int())))
		t := padTo(x.t, w)
		if b.Int() == 1 {
			t = Or(t, mask)
		} else {
			t = And(t, Not(mask))
		}
		return bigSet(a[0], &bigVal{w, t, x.neg})
	})
	bitop := func(name string, f func(a, b Term) Term, cf func(z, x, y *big.Int) *big.Int) {
		B(name, func(e *Engine, fr *frame, a []Value) Value {
			x, y := bigGet(a[1]), bigGet(a[2])
			if xc, ok := x.concrete(); ok {
				if yc, ok := y.concrete(); ok {
					return bigSet(a[0], bigConst(cf(new(big.Int), xc, yc)))
				}
			}
			if x.neg || y.neg {
				unsupported("big.%s with negative symbolic operand", name)
			}
			w := bigW(x, y)
			return bigSet(a[0], &bigVal{w, f(padTo(x.t, w), padTo(y.t, w)), false})
		})
	}
	bitop("And", And, (*big.Int).And)
	bitop("Or", Or, (*big.Int).Or)
	bitop("Xor", Xor, (*big.Int).Xor)
	B("Rsh", func(e *Engine, fr *frame, a []Value) Value {
		x := bigGet(a[1])
		n := a[2].(Term)
		if !n.IsConst() {
			unsupported("big.Rsh by a symbolic amount")
		}
		if c, ok := x.concrete(); ok {
			return bigSet(a[0], bigConst(new(big.Int).Rsh(c, uint(n.Int()))))
		}
		// the representation narrows with the shift (the value is the same): x >> n needs x.w - n bits, rounded
		// up to whole bytes.  Bytes() explores leading zero bytes relative to the representation width, so a
		// result kept at the operand's width would put every value of (nonce >> 192) outside that bound
		sh := n.Int()
		if sh >= x.w {
			return bigSet(a[0], bigConst(big.NewInt(0)))
		}
		rest := x.w - sh
		w := (rest + 7) / 8 * 8
		return bigSet(a[0], &bigVal{w, ZExt(Extract(x.w-1, sh, x.t), w), x.neg})
	})
	B("Lsh", func(e *Engine, fr *frame, a []Value) Value {
		x := bigGet(a[1])
		n := a[2].(Term)
		if !n.IsConst() {
			unsupported("big.Lsh by a symbolic amount")
		}
		if c, ok := x.concrete(); ok {
			return bigSet(a[0], bigConst(new(big.Int).Lsh(c, uint(n.Int()))))
		}
		w := x.w + (n.Int()+7)/8*8
		return bigSet(a[0], &bigVal{w, Shl(padTo(x.t, w), BV(w, int64(n.Int()))), x.neg})
	})
	B("Bit", func(e *Engine, fr *frame, a []Value) Value {
		x := bigGet(a[0])
		i := a[1].(Term)
		if !i.IsConst() {
			unsupported("big.Bit at a symbolic position")
		}
		if i.Int() >= x.w {
			return BV(64, 0)
		}
		return ZExt(Extract(i.Int(), i.Int(), x.t), 64)
	})
	divlike := func(name string, cf func(z, x, y *big.Int) *big.Int) {
		B(name, func(e *Engine, fr *frame, a []Value) Value {
			x, y := bigGet(a[1]), bigGet(a[2])
			if xc, ok := x.concrete(); ok {
				if yc, ok := y.concrete(); ok {
					if yc.Sign() == 0 {
						e.goPanicStr("division by zero")
					}
					return bigSet(a[0], bigConst(cf(new(big.Int), xc, yc)))
				}
			}
			w := bigW(x, y)
			uf("big"+name+fmt.Sprint(w), []int{w, w}, w)
			return bigSet(a[0], &bigVal{w, App("big"+name+fmt.Sprint(w), w, padTo(x.t, w), padTo(y.t, w)), x.neg != y.neg})
		})
	}
	divlike("Div", (*big.Int).Div)
	divlike("Quo", (*big.Int).Quo)
	B("GCD", func(e *Engine, fr *frame, a []Value) Value {
		x, y := bigGet(a[3]), bigGet(a[4])
		if xc, ok := x.concrete(); ok {
			if yc, ok := y.concrete(); ok {
				return bigSet(a[0], bigConst(new(big.Int).GCD(nil, nil, xc, yc)))
			}
		}
		w := bigW(x, y)
		uf("biggcd"+fmt.Sprint(w), []int{w, w}, w)
		return bigSet(a[0], &bigVal{w, App("biggcd"+fmt.Sprint(w), w, padTo(x.t, w), padTo(y.t, w)), false})
	})
}
