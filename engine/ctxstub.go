package main

import (
	"go/types"

	"golang.org/x/tools/go/ssa"
)

// context model: a context is a done-channel; cancel closes it.  Deadlines/values are not modelled.
type ctxStub struct {
	done     *ChanV
	canceled bool
	parent   *ctxStub
}

var ctxStubT = types.NewNamed(types.NewTypeName(0, nil, "ctxStub", nil), types.NewStruct(nil, nil), nil)

// nativeFunc is an engine-implemented function value (e.g. a context.CancelFunc)
type nativeFunc func(e *Engine, fr *frame, args []Value) Value

func (e *Engine) sentinel(pkg, name string) Value {
	if p := e.prog.ImportedPackage(pkg); p != nil {
		if g, ok := p.Members[name].(*ssa.Global); ok {
			return *e.global(g)
		}
	}
	return mkErr("sentinel:"+pkg+"."+name, nil)
}

func (c *ctxStub) isDone() bool {
	for x := c; x != nil; x = x.parent {
		if x.canceled {
			return true
		}
	}
	return false
}

func init() {
	I := func(name string, h intrinsic) { intrinsics[name] = h }
	mk := func(parent *ctxStub) *ctxStub {
		return &ctxStub{done: &ChanV{et: types.NewStruct(nil, nil)}, parent: parent}
	}
	bg := func(e *Engine, fr *frame, a []Value) Value { return Iface{T: ctxStubT, V: mk(nil)} }
	I("context.Background", bg)
	I("context.TODO", bg)
	withCancel := func(e *Engine, fr *frame, a []Value) Value {
		var parent *ctxStub
		if p, ok := a[0].(Iface); ok {
			parent, _ = p.V.(*ctxStub)
		}
		c := mk(parent)
		// a cancelled parent cancels the child: propagate eagerly through a registry on the parent chain
		if parent != nil {
			kids, _ := e.pathData["ctxkids"].(map[*ctxStub][]*ctxStub)
			if kids == nil {
				kids = map[*ctxStub][]*ctxStub{}
				e.pathData["ctxkids"] = kids
			}
			kids[parent] = append(kids[parent], c)
			if parent.isDone() {
				c.canceled, c.done.closed = true, true
			}
		}
		var cancel nativeFunc = func(e *Engine, fr *frame, args []Value) Value {
			var rec func(x *ctxStub)
			rec = func(x *ctxStub) {
				if !x.canceled {
					x.canceled = true
					x.done.closed = true
				}
				kids, _ := e.pathData["ctxkids"].(map[*ctxStub][]*ctxStub)
				for _, k := range kids[x] {
					rec(k)
				}
			}
			rec(c)
			return nil
		}
		return Tuple{Iface{T: ctxStubT, V: c}, cancel}
	}
	I("context.WithCancel", withCancel)
	I("context.WithTimeout", func(e *Engine, fr *frame, a []Value) Value { return withCancel(e, fr, a) })
	I("context.WithDeadline", func(e *Engine, fr *frame, a []Value) Value { return withCancel(e, fr, a) })
	I("ctxStub.Done", func(e *Engine, fr *frame, a []Value) Value { return a[0].(*ctxStub).done })
	I("ctxStub.Err", func(e *Engine, fr *frame, a []Value) Value {
		if a[0].(*ctxStub).isDone() {
			return e.sentinel("context", "Canceled")
		}
		return Iface{}
	})
	I("ctxStub.Value", func(e *Engine, fr *frame, a []Value) Value { return Iface{} })
	I("ctxStub.Deadline", func(e *Engine, fr *frame, a []Value) Value { return Tuple{zero(nil2time()), Bool(false)} })
	// tickers never fire unless the harness makes them
	I("time.NewTicker", func(e *Engine, fr *frame, a []Value) Value {
		var cell Value = Struct{&ChanV{et: types.Typ[types.Int]}, Struct{}, Bool(false)}
		return &cell
	})
	I("(*time.Ticker).Stop", func(e *Engine, fr *frame, a []Value) Value { return nil })
	I("time.After", func(e *Engine, fr *frame, a []Value) Value { return &ChanV{et: types.Typ[types.Int]} })
}

func nil2time() types.Type { return types.NewStruct(nil, nil) }
