package main

import (
	"bufio"
	"fmt"
	"io"
	"os"
	"os/exec"
	"strings"
	"time"
)

// proc is one live solver process.
type proc struct {
	kind  string
	cmd   *exec.Cmd
	in    io.WriteCloser
	lines chan string
	log   *os.File
	// how many decls/defs have been sent
	declSent, defSent int
	dead, killed      bool
	// lines to the solver go through a queue drained by a writer goroutine: a solver that is busy (a get-value
	// that never ends, a check-sat that ignores its time limit) must not block the engine in a pipe write
	outq chan string
}

func solverCmd(kind string, tmo int) (string, []string) {
	switch kind {
	case "z3":
		return "z3", []string{"-in"}
	case "z3-new":
		return "z3-new", []string{"-in"}
	case "cvc5":
		return "cvc5", []string{"--incremental", "--lang=smt2", "--produce-models", fmt.Sprintf("--tlimit-per=%d", tmo)}
	case "cvc5-int":
		return "cvc5", []string{"--incremental", "--lang=smt2", "--produce-models", "--solve-bv-as-int=sum", fmt.Sprintf("--tlimit-per=%d", tmo)}
	}
	panic("unknown solver " + kind)
}

func startProc(kind string, tmo int) *proc {
	bin, args := solverCmd(kind, tmo)
	cmd := exec.Command(bin, args...)
	in, _ := cmd.StdinPipe()
	outp, _ := cmd.StdoutPipe()
	cmd.Stderr = nil
	if err := cmd.Start(); err != nil {
		panic(err)
	}
	p := &proc{kind: kind, cmd: cmd, in: in, lines: make(chan string, 1024), outq: make(chan string, 1<<16)}
	go func() {
		for l := range p.outq {
			if _, err := io.WriteString(in, l+"\n"); err != nil {
				p.dead = true
				for range p.outq { // drain
				}
				return
			}
		}
	}()
	go func() {
		r := bufio.NewReaderSize(outp, 1<<20)
		for {
			l, err := r.ReadString('\n')
			if l != "" {
				p.lines <- l
			}
			if err != nil {
				close(p.lines)
				return
			}
		}
	}()
	if lp := os.Getenv("GOSYM_SMTLOG"); lp != "" {
		p.log, _ = os.Create(lp + "." + kind)
	}
	p.send("(set-option :global-declarations true)")
	if strings.HasPrefix(kind, "z3") {
		p.send(fmt.Sprintf("(set-option :timeout %d)", tmo))
	}
	p.send("(set-option :produce-models true)")
	return p
}

var ioTime time.Duration

func (p *proc) send(l string) {
	t0 := time.Now()
	defer func() { ioTime += time.Since(t0) }()
	if p.log != nil {
		fmt.Fprintln(p.log, l)
	}
	if p.dead {
		return
	}
	select {
	case p.outq <- l:
	case <-time.After(5 * time.Minute):
		// the queue (65536 lines) has not moved for five minutes: the solver is stuck
		p.kill()
	}
}
func (p *proc) kill() {
	if p.dead && p.killed {
		return
	}
	p.dead = true
	p.killed = true
	p.in.Close()
	if p.cmd.Process != nil {
		p.cmd.Process.Kill()
	}
	go p.cmd.Wait()
}
func (p *proc) flushDefs() {
	// decls and defs are created in interleaved order but defs only reference decls/earlier defs.
	for ; p.declSent < len(decls); p.declSent++ {
		p.send(decls[p.declSent])
	}
	for ; p.defSent < len(defs); p.defSent++ {
		p.send(defs[p.defSent])
	}
}
func (p *proc) readLine(d time.Duration) (string, bool) {
	select {
	case l, ok := <-p.lines:
		if !ok {
			p.dead = true
			return "", false
		}
		return l, true
	case <-time.After(d):
		return "", false
	}
}

type Solver struct {
	kind    string
	tmo     int
	main    *proc
	alts    map[string]*proc
	stack   [][]string // mirrored assertion stack (one slice per push level)
	Queries int
	Time    time.Duration
	Fallbacks int
	altOrder []string
	last     *proc
}

func NewSolver(kind string, tmo int) *Solver {
	s := &Solver{kind: kind, tmo: tmo, alts: map[string]*proc{}, stack: [][]string{nil}}
	s.main = startProc(kind, tmo)
	for _, k := range []string{"cvc5", "z3", "z3-new"} {
		if k != kind && !(kind == "cvc5-int" && k == "cvc5") {
			s.altOrder = append(s.altOrder, k)
		}
	}
	if os.Getenv("GOSYM_NOFALLBACK") != "" {
		s.altOrder = nil
	}
	return s
}

func (s *Solver) Push() {
	s.stack = append(s.stack, nil)
	s.main.send("(push 1)")
}
func (s *Solver) Pop() {
	s.stack = s.stack[:len(s.stack)-1]
	s.main.send("(pop 1)")
}
func (s *Solver) Assert(t Term) {
	a := "(assert " + t.S() + ")"
	s.stack[len(s.stack)-1] = append(s.stack[len(s.stack)-1], a)
	s.main.flushDefs()
	s.main.send(a)
}

// resync restarts p's state to mirror the current stack (flattened).
func (s *Solver) resync(p *proc) {
	p.send("(reset)")
	p.send("(set-option :global-declarations true)")
	if strings.HasPrefix(p.kind, "z3") {
		p.send(fmt.Sprintf("(set-option :timeout %d)", s.tmo))
	}
	p.send("(set-option :produce-models true)")
	p.declSent, p.defSent = 0, 0
	p.flushDefs()
	for _, fr := range s.stack {
		for _, a := range fr {
			p.send(a)
		}
	}
}

func (s *Solver) restartMain() {
	s.main.kill()
	s.main = startProc(s.kind, s.tmo)
	s.main.flushDefs()
	for i, fr := range s.stack {
		if i > 0 {
			s.main.send("(push 1)")
		}
		for _, a := range fr {
			s.main.send(a)
		}
	}
}

func checkOn(p *proc, tmo int) string {
	p.flushDefs()
	p.send("(check-sat)")
	for {
		l, ok := p.readLine(time.Duration(tmo)*time.Millisecond + 10*time.Second)
		if !ok {
			return "hang"
		}
		l = strings.TrimSpace(l)
		switch {
		case l == "sat", l == "unsat", l == "unknown":
			return l
		case l == "timeout" || strings.Contains(l, "timeout") || strings.Contains(l, "interrupted"):
			return "unknown"
		case strings.HasPrefix(l, "(error"):
			return "error: " + l
		case l == "" || l == "success":
			continue
		default:
			return "error: unexpected solver output " + l
		}
	}
}

// Check runs check-sat on the current stack; lastProc is the process holding the model.
func (s *Solver) Check() (res string) {
	t0 := time.Now()
	defer func() {
		d := time.Since(t0)
		s.Time += d
		if d > 2*time.Second && os.Getenv("GOSYM_SLOWLOG") != "" {
			last := ""
			if fr := s.stack[len(s.stack)-1]; len(fr) > 0 {
				last = fr[len(fr)-1]
			}
			if len(last) > 300 {
				last = last[:300]
			}
			fmt.Fprintf(os.Stderr, "SLOW %.1fs %s: %s\n", d.Seconds(), res, last)
		}
	}()
	s.Queries++
	r := checkOn(s.main, s.tmo)
	s.last = s.main
	if r == "hang" || strings.HasPrefix(r, "error") && s.main.dead {
		s.restartMain()
		r = "unknown"
	}
	if r == "sat" || r == "unsat" {
		return r
	}
	// fallback portfolio
	for _, k := range s.altOrder {
		p := s.alts[k]
		if p == nil || p.dead {
			p = startProc(k, s.tmo)
			s.alts[k] = p
		}
		s.resync(p)
		s.Fallbacks++
		r2 := checkOn(p, s.tmo)
		if r2 == "hang" {
			p.kill()
			continue
		}
		if r2 == "sat" || r2 == "unsat" {
			s.last = p
			return r2
		}
	}
	return r
}

func (s *Solver) CheckWith(t Term) string {
	s.Push()
	s.Assert(t)
	r := s.Check()
	s.Pop()
	return r
}

// GetValues returns the model values (as decimal-parsable big ints in hex) for the given terms from the
// process that answered the last Check with sat. Must be called before the stack changes.
func (s *Solver) GetValues(ts []Term) ([]string, error) {
	t0 := time.Now()
	defer func() { s.Time += time.Since(t0) }()
	out, err := s.getValuesOn(s.last, ts)
	if err == nil {
		return out, nil
	}
	// the process that said sat cannot produce the values (model evaluation that never ends, solver error): it is
	// killed - it may still be busy - and the other solvers are asked for a model of the same stack
	failed := s.last
	failed.kill()
	if failed == s.main {
		s.restartMain()
	}
	for _, k := range s.altOrder {
		p := s.alts[k]
		if p == failed {
			continue
		}
		if p == nil || p.dead {
			p = startProc(k, s.tmo)
			s.alts[k] = p
		}
		s.resync(p)
		s.Fallbacks++
		if r := checkOn(p, s.tmo); r != "sat" {
			if r == "hang" {
				p.kill()
			}
			continue
		}
		if out, err2 := s.getValuesOn(p, ts); err2 == nil {
			s.last = p
			return out, nil
		}
		p.kill()
	}
	return nil, err
}

func (s *Solver) getValuesOn(p *proc, ts []Term) ([]string, error) {
	out := make([]string, 0, len(ts))
	const chunk = 256
	for i := 0; i < len(ts); i += chunk {
		j := i + chunk
		if j > len(ts) {
			j = len(ts)
		}
		var n []string
		for _, t := range ts[i:j] {
			n = append(n, t.S())
		}
		p.send("(get-value (" + strings.Join(n, " ") + "))")
		txt, err := readSexp(p, time.Duration(s.tmo)*time.Millisecond+10*time.Second)
		if err != nil {
			return nil, err
		}
		vals, err := parseValues(txt, j-i)
		if err != nil {
			return nil, fmt.Errorf("%v in %q", err, txt)
		}
		out = append(out, vals...)
	}
	return out, nil
}


func readSexp(p *proc, d time.Duration) (string, error) {
	depth := 0
	var sb strings.Builder
	started := false
	for {
		l, ok := p.readLine(d)
		if !ok {
			return "", fmt.Errorf("solver silent/dead during get-value")
		}
		for _, r := range l {
			if r == '(' {
				depth++
				started = true
			} else if r == ')' {
				depth--
			}
		}
		sb.WriteString(l)
		if started && depth <= 0 {
			break
		}
	}
	t := sb.String()
	if strings.Contains(t, "(error") {
		return "", fmt.Errorf("solver error: %s", strings.TrimSpace(t))
	}
	return t, nil
}

// parseValues extracts the value literal of each (term value) pair at top level.
func parseValues(txt string, n int) ([]string, error) {
	// tokenise into a tree
	txt = strings.TrimSpace(txt)
	pos := 0
	var parse func() interface{}
	skip := func() {
		for pos < len(txt) && (txt[pos] == ' ' || txt[pos] == '\n' || txt[pos] == '\t' || txt[pos] == '\r') {
			pos++
		}
	}
	parse = func() interface{} {
		skip()
		if pos >= len(txt) {
			return nil
		}
		if txt[pos] == '(' {
			pos++
			var l []interface{}
			for {
				skip()
				if pos >= len(txt) {
					return l
				}
				if txt[pos] == ')' {
					pos++
					return l
				}
				l = append(l, parse())
			}
		}
		st := pos
		for pos < len(txt) && !strings.ContainsRune(" \n\t\r()", rune(txt[pos])) {
			pos++
		}
		return txt[st:pos]
	}
	top, ok := parse().([]interface{})
	if !ok || len(top) != n {
		return nil, fmt.Errorf("expected %d pairs", n)
	}
	out := make([]string, n)
	for i, pr := range top {
		pl, ok := pr.([]interface{})
		if !ok || len(pl) != 2 {
			return nil, fmt.Errorf("bad pair")
		}
		switch v := pl[1].(type) {
		case string:
			out[i] = v
		case []interface{}:
			// (_ bvN w)
			if len(v) == 3 {
				if s, ok := v[1].(string); ok && strings.HasPrefix(s, "bv") {
					out[i] = "dec:" + s[2:]
					continue
				}
			}
			return nil, fmt.Errorf("unparsed value")
		}
	}
	return out, nil
}

func (s *Solver) Close() {
	s.main.kill()
	for _, p := range s.alts {
		if p != nil {
			p.kill()
		}
	}
}
