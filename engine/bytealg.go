package main

// models of the assembly-backed internal/bytealg kernels over concrete-length symbolic byte strings

func bytesOf(v Value) []Term {
	switch x := v.(type) {
	case Slice:
		return sliceTerms(x)
	case string, SymStr:
		return strBytes(x)
	}
	unsupported("bytesOf %T", v)
	return nil
}

// firstIndex forks over the first position i where match(i) holds (or -1).
func (e *Engine) firstIndex(n int, match func(i int) Term) Term {
	conds := make([]Term, n+1)
	none := Bool(true)
	allConst := true
	for i := 0; i < n; i++ {
		m := match(i)
		conds[i] = And(none, m)
		none = And(none, Not(m))
		if !m.IsConst() {
			allConst = false
		}
	}
	conds[n] = none
	if allConst {
		for i := 0; i <= n; i++ {
			if conds[i].True() {
				if i == n {
					return BV(64, -1)
				}
				return BV(64, int64(i))
			}
		}
	}
	i := e.choose(n+1, func(i int) Term { return conds[i] })
	if i == n {
		return BV(64, -1)
	}
	return BV(64, int64(i))
}

func (e *Engine) lastIndex(n int, match func(i int) Term) Term {
	r := e.firstIndex(n, func(i int) Term { return match(n - 1 - i) })
	if r.Int() < 0 {
		return r
	}
	return BV(64, int64(n-1-r.Int()))
}

func eqAt(hay, needle []Term, at int) Term {
	r := Bool(true)
	for j := range needle {
		r = And(r, Eq(hay[at+j], needle[j]))
		if r.False() {
			break
		}
	}
	return r
}

func init() {
	idxByte := func(e *Engine, fr *frame, a []Value) Value {
		s := bytesOf(a[0])
		c := a[1].(Term)
		return e.firstIndex(len(s), func(i int) Term { return Eq(s[i], c) })
	}
	lastIdxByte := func(e *Engine, fr *frame, a []Value) Value {
		s := bytesOf(a[0])
		c := a[1].(Term)
		return e.lastIndex(len(s), func(i int) Term { return Eq(s[i], c) })
	}
	idx := func(e *Engine, fr *frame, a []Value) Value {
		s, sub := bytesOf(a[0]), bytesOf(a[1])
		if len(sub) > len(s) {
			return BV(64, -1)
		}
		return e.firstIndex(len(s)-len(sub)+1, func(i int) Term { return eqAt(s, sub, i) })
	}
	count := func(e *Engine, fr *frame, a []Value) Value {
		s := bytesOf(a[0])
		c := a[1].(Term)
		r := BV(64, 0)
		for i := range s {
			r = Add(r, Ite(Eq(s[i], c), BV(64, 1), BV(64, 0)))
		}
		return r
	}
	equal := func(e *Engine, fr *frame, a []Value) Value {
		x, y := bytesOf(a[0]), bytesOf(a[1])
		if len(x) != len(y) {
			return Bool(false)
		}
		return eqAt(x, y, 0)
	}
	compare := func(e *Engine, fr *frame, a []Value) Value {
		x, y := bytesOf(a[0]), bytesOf(a[1])
		n := len(x)
		if len(y) < n {
			n = len(y)
		}
		var tail Term
		switch {
		case len(x) < len(y):
			tail = BV(64, -1)
		case len(x) > len(y):
			tail = BV(64, 1)
		default:
			tail = BV(64, 0)
		}
		r := tail
		for i := n - 1; i >= 0; i-- {
			r = Ite(Eq(x[i], y[i]), r, Ite(Ult(x[i], y[i]), BV(64, -1), BV(64, 1)))
		}
		return r
	}
	for _, p := range []string{"internal/bytealg.", "internal/stringslite."} {
		intrinsics[p+"IndexByteString"] = idxByte
		intrinsics[p+"IndexByte"] = idxByte
		intrinsics[p+"LastIndexByteString"] = lastIdxByte
		intrinsics[p+"LastIndexByte"] = lastIdxByte
		intrinsics[p+"IndexString"] = idx
		intrinsics[p+"Index"] = idx
		intrinsics[p+"CountString"] = count
		intrinsics[p+"Count"] = count
		intrinsics[p+"Equal"] = equal
		intrinsics[p+"Compare"] = compare
		intrinsics[p+"CompareString"] = compare
	}
	intrinsics["strings.IndexByte"] = idxByte
	intrinsics["bytes.IndexByte"] = idxByte
	intrinsics["strings.LastIndexByte"] = lastIdxByte
	intrinsics["strings.Index"] = idx
	intrinsics["bytes.Index"] = idx
	intrinsics["bytes.Equal"] = equal
	intrinsics["bytes.Compare"] = compare
	intrinsics["strings.Compare"] = compare
	intrinsics["internal/bytealg.MakeNoZero"] = func(e *Engine, fr *frame, a []Value) Value {
		n := e.concretize(a[0].(Term), 0, 1<<24)
		s := make([]Value, n)
		for i := range s {
			s[i] = BV(8, 0)
		}
		return Slice{s}
	}
	clone := func(e *Engine, fr *frame, a []Value) Value { return a[0] }
	intrinsics["internal/stringslite.Clone"] = clone
	intrinsics["strings.Clone"] = clone
}

func init() {
	id := func(e *Engine, fr *frame, a []Value) Value { return a[0] }
	intrinsics["internal/abi.NoEscape"] = id
	intrinsics["(*strings.Builder).copyCheck"] = func(e *Engine, fr *frame, a []Value) Value { return nil }
}

func init() {
	intrinsics["encoding/hex.EncodeToString"] = func(e *Engine, fr *frame, a []Value) Value {
		const hexd = "0123456789abcdef"
		ts := sliceTerms(a[0])
		out := make([]byte, 0, 2*len(ts))
		for _, t := range ts {
			if !t.IsConst() {
				return "<hex of symbolic bytes>" // only ever used for messages
			}
			v := byte(t.C.Uint64())
			out = append(out, hexd[v>>4], hexd[v&15])
		}
		return string(out)
	}
}
