package main

import (
	"fmt"
	"math/big"
	"strings"
)

// Sort: W==0 means Bool, otherwise BitVec W.
type Term struct {
	W int
	C *big.Int // constant value (unsigned repr) if non-nil
	E string   // SMT expression otherwise
}

var one = big.NewInt(1)

func mask(w int) *big.Int { return new(big.Int).Sub(new(big.Int).Lsh(one, uint(w)), one) }
func norm(w int, v *big.Int) *big.Int {
	return new(big.Int).And(v, mask(w))
}
func BV(w int, v int64) Term {
	return Term{W: w, C: norm(w, big.NewInt(v))}
}
func BVu(w int, v uint64) Term { return Term{W: w, C: norm(w, new(big.Int).SetUint64(v))} }
func BVb(w int, v *big.Int) Term { return Term{W: w, C: norm(w, v)} }
func Bool(b bool) Term {
	if b {
		return Term{W: 0, C: big.NewInt(1)}
	}
	return Term{W: 0, C: big.NewInt(0)}
}
func (t Term) IsConst() bool { return t.C != nil }
func (t Term) True() bool    { return t.C != nil && t.C.Sign() != 0 }
func (t Term) False() bool   { return t.C != nil && t.C.Sign() == 0 }
func (t Term) Signed() *big.Int {
	if t.C.Bit(t.W-1) == 1 {
		return new(big.Int).Sub(t.C, new(big.Int).Lsh(one, uint(t.W)))
	}
	return new(big.Int).Set(t.C)
}
func (t Term) Int() int { return int(t.Signed().Int64()) }
func (t Term) S() string {
	if t.C != nil {
		if t.W == 0 {
			if t.C.Sign() != 0 {
				return "true"
			}
			return "false"
		}
		if t.W%4 == 0 {
			return fmt.Sprintf("#x%0*s", t.W/4, t.C.Text(16))
		}
		return fmt.Sprintf("#b%0*s", t.W, t.C.Text(2))
	}
	return t.E
}
func (t Term) String() string { return t.S() }

// naming of big expressions
var (
	defs     []string
	defNames = map[string]string{}
	defBodies = map[string]string{}
	defSent  int
)

// structural view of (some) terms, keyed by their printed form, used by the rewrite rules below
type node struct {
	op     string // "xor", "extract", "concat", "app:<name>"
	a, b   Term
	hi, lo int
	args   []Term
}

var nodes = map[string]*node{}

func nodeOf(t Term) *node {
	if t.C != nil {
		return nil
	}
	return nodes[t.E]
}
func reg(t Term, n *node) Term {
	if t.C == nil {
		if _, ok := nodes[t.E]; !ok {
			nodes[t.E] = n
		}
	}
	return t
}

func sortS(w int) string {
	if w == 0 {
		return "Bool"
	}
	return fmt.Sprintf("(_ BitVec %d)", w)
}
func mk(w int, format string, args ...interface{}) Term {
	e := fmt.Sprintf(format, args...)
	if len(e) > 48 {
		if n, ok := defNames[e]; ok {
			return Term{W: w, E: n}
		}
		n := fmt.Sprintf("t%d", len(defs))
		defs = append(defs, fmt.Sprintf("(define-fun %s () %s %s)", n, sortS(w), e))
		defNames[e] = n
		defBodies[n] = e
		return Term{W: w, E: n}
	}
	return Term{W: w, E: e}
}

var freshN int
var decls []string
var declSent int

var freshDeclared = map[string]bool{}

func Fresh(w int, hint string) Term {
	n := fmt.Sprintf("%s_%d_w%d", hint, freshN, w)
	freshN++
	if !freshDeclared[n] {
		freshDeclared[n] = true
		decls = append(decls, fmt.Sprintf("(declare-const %s %s)", n, sortS(w)))
	}
	return Term{W: w, E: n}
}
func DeclareFun(name string, args []int, res int) {
	var a []string
	for _, w := range args {
		a = append(a, sortS(w))
	}
	decls = append(decls, fmt.Sprintf("(declare-fun %s (%s) %s)", name, strings.Join(a, " "), sortS(res)))
}

func binc(op string, a, b Term, f func(x, y *big.Int) *big.Int) Term {
	if a.W != b.W {
		panic(fmt.Sprintf("width mismatch %s %d %d (%s, %s)", op, a.W, b.W, a.S(), b.S()))
	}
	if a.C != nil && b.C != nil && f != nil {
		return BVb(a.W, f(a.C, b.C))
	}
	return mk(a.W, "(%s %s %s)", op, a.S(), b.S())
}
func Add(a, b Term) Term {
	if a.C != nil && a.C.Sign() == 0 {
		return b
	}
	if b.C != nil && b.C.Sign() == 0 {
		return a
	}
	return reg(binc("bvadd", a, b, func(x, y *big.Int) *big.Int { return new(big.Int).Add(x, y) }), &node{op: "add", a: a, b: b})
}
func Sub(a, b Term) Term {
	if b.C != nil && b.C.Sign() == 0 {
		return a
	}
	return binc("bvsub", a, b, func(x, y *big.Int) *big.Int { return new(big.Int).Sub(x, y) })
}
func Mul(a, b Term) Term {
	return reg(binc("bvmul", a, b, func(x, y *big.Int) *big.Int { return new(big.Int).Mul(x, y) }), &node{op: "mul", a: a, b: b})
}
func And(a, b Term) Term {
	if a.W == 0 {
		if a.False() || b.False() {
			return Bool(false)
		}
		if a.True() {
			return b
		}
		if b.True() {
			return a
		}
		return mk(0, "(and %s %s)", a.S(), b.S())
	}
	if a.C != nil && a.C.Sign() == 0 || b.C != nil && b.C.Sign() == 0 {
		return BV(a.W, 0)
	}
	return binc("bvand", a, b, func(x, y *big.Int) *big.Int { return new(big.Int).And(x, y) })
}
func Or(a, b Term) Term {
	if a.W == 0 {
		if a.True() || b.True() {
			return Bool(true)
		}
		if a.False() {
			return b
		}
		if b.False() {
			return a
		}
		return mk(0, "(or %s %s)", a.S(), b.S())
	}
	if a.C != nil && a.C.Sign() == 0 {
		return b
	}
	if b.C != nil && b.C.Sign() == 0 {
		return a
	}
	return binc("bvor", a, b, func(x, y *big.Int) *big.Int { return new(big.Int).Or(x, y) })
}
func Xor(a, b Term) Term {
	if a.W == 0 {
		if a.C != nil && b.C != nil {
			return Bool(a.True() != b.True())
		}
		return mk(0, "(xor %s %s)", a.S(), b.S())
	}
	if a.C != nil && a.C.Sign() == 0 {
		return b
	}
	if b.C != nil && b.C.Sign() == 0 {
		return a
	}
	if a.C == nil && a.E == b.E {
		return BV(a.W, 0)
	}
	// (x ^ y) ^ y -> x
	if n := nodeOf(a); n != nil && n.op == "xor" {
		if sameT(n.b, b) {
			return n.a
		}
		if sameT(n.a, b) {
			return n.b
		}
	}
	if n := nodeOf(b); n != nil && n.op == "xor" {
		if sameT(n.b, a) {
			return n.a
		}
		if sameT(n.a, a) {
			return n.b
		}
	}
	return reg(binc("bvxor", a, b, func(x, y *big.Int) *big.Int { return new(big.Int).Xor(x, y) }), &node{op: "xor", a: a, b: b})
}
func Not(a Term) Term {
	if a.W == 0 {
		if a.C != nil {
			return Bool(!a.True())
		}
		if strings.HasPrefix(a.E, "(not ") {
			return Term{W: 0, E: a.E[5 : len(a.E)-1]}
		}
		return mk(0, "(not %s)", a.S())
	}
	if a.C != nil {
		return BVb(a.W, new(big.Int).Not(a.C))
	}
	return mk(a.W, "(bvnot %s)", a.S())
}
func Neg(a Term) Term { return Sub(BV(a.W, 0), a) }
func Eq(a, b Term) Term {
	if a.W != b.W {
		panic(fmt.Sprintf("eq width mismatch %d %d", a.W, b.W))
	}
	if a.C != nil && b.C != nil {
		return Bool(a.C.Cmp(b.C) == 0)
	}
	if a.C == nil && b.C == nil && a.E == b.E {
		return Bool(true)
	}
	return mk(0, "(= %s %s)", a.S(), b.S())
}
func cmp(op string, a, b Term, signed bool, f func(c int) bool) Term {
	if a.C != nil && b.C != nil {
		if signed {
			return Bool(f(a.Signed().Cmp(b.Signed())))
		}
		return Bool(f(a.C.Cmp(b.C)))
	}
	return mk(0, "(%s %s %s)", op, a.S(), b.S())
}
func Ult(a, b Term) Term {
	if b.C != nil && b.C.Sign() == 0 {
		return Bool(false) // nothing is below zero
	}
	return cmp("bvult", a, b, false, func(c int) bool { return c < 0 })
}
func Ule(a, b Term) Term {
	if a.C != nil && a.C.Sign() == 0 {
		return Bool(true)
	}
	return cmp("bvule", a, b, false, func(c int) bool { return c <= 0 })
}
func Slt(a, b Term) Term { return cmp("bvslt", a, b, true, func(c int) bool { return c < 0 }) }
func Sle(a, b Term) Term { return cmp("bvsle", a, b, true, func(c int) bool { return c <= 0 }) }
func Ite(c, a, b Term) Term {
	if c.True() {
		return a
	}
	if c.False() {
		return b
	}
	if a.C != nil && b.C != nil && a.C.Cmp(b.C) == 0 {
		return a
	}
	return mk(a.W, "(ite %s %s %s)", c.S(), a.S(), b.S())
}
func Extract(hi, lo int, a Term) Term {
	if lo == 0 && hi == a.W-1 {
		return a
	}
	if a.C != nil {
		return BVb(hi-lo+1, new(big.Int).Rsh(a.C, uint(lo)))
	}
	if n := nodeOf(a); n != nil {
		switch n.op {
		case "extract":
			return Extract(hi+n.lo, lo+n.lo, n.a)
		case "concat": // a = n.a ++ n.b
			if hi < n.b.W {
				return Extract(hi, lo, n.b)
			}
			if lo >= n.b.W {
				return Extract(hi-n.b.W, lo-n.b.W, n.a)
			}
		case "xor":
			if hi-lo+1 <= 64 {
				return Xor(Extract(hi, lo, n.a), Extract(hi, lo, n.b))
			}
		}
	}
	return reg(mk(hi-lo+1, "((_ extract %d %d) %s)", hi, lo, a.S()), &node{op: "extract", a: a, hi: hi, lo: lo})
}

func sameT(a, b Term) bool {
	if a.W != b.W {
		return false
	}
	if a.C != nil || b.C != nil {
		return a.C != nil && b.C != nil && a.C.Cmp(b.C) == 0
	}
	return a.E == b.E
}
func Concat(a, b Term) Term { // a is high
	if a.C != nil && b.C != nil {
		return BVb(a.W+b.W, new(big.Int).Or(new(big.Int).Lsh(a.C, uint(b.W)), b.C))
	}
	// extract(h1,l1,X) ++ extract(l1-1,l2,X) -> extract(h1,l2,X)
	if na, nb := nodeOf(a), nodeOf(b); na != nil && nb != nil && na.op == "extract" && nb.op == "extract" && sameT(na.a, nb.a) && na.lo == nb.hi+1 {
		return Extract(na.hi, nb.lo, na.a)
	}
	// (p ++ extract(h1,l1,X)) ++ extract(l1-1,l2,X)
	if na, nb := nodeOf(a), nodeOf(b); na != nil && nb != nil && na.op == "concat" && nb.op == "extract" {
		if nr := nodeOf(na.b); nr != nil && nr.op == "extract" && sameT(nr.a, nb.a) && nr.lo == nb.hi+1 {
			return Concat(na.a, Extract(nr.hi, nb.lo, nr.a))
		}
	}
	// (x1^y1) ++ (x2^y2) -> (x1++x2) ^ (y1++y2) when that lets the halves fuse; tried only for byte-wise xor chains
	if na, nb := nodeOf(a), nodeOf(b); na != nil && nb != nil && na.op == "xor" && nb.op == "xor" {
		l, r := Concat(na.a, nb.a), Concat(na.b, nb.b)
		if fused(l) && fused(r) {
			return Xor(l, r)
		}
	}
	return reg(mk(a.W+b.W, "(concat %s %s)", a.S(), b.S()), &node{op: "concat", a: a, b: b})
}

// fused reports whether t is not a raw concat node (i.e. the concat collapsed into something simpler)
func fused(t Term) bool {
	if t.C != nil {
		return true
	}
	n := nodeOf(t)
	return n == nil || n.op != "concat"
}
func ZExt(a Term, w int) Term {
	if w == a.W {
		return a
	}
	if w < a.W {
		return Extract(w-1, 0, a)
	}
	if a.C != nil {
		return BVb(w, a.C)
	}
	return mk(w, "((_ zero_extend %d) %s)", w-a.W, a.S())
}
func SExt(a Term, w int) Term {
	if w == a.W {
		return a
	}
	if w < a.W {
		return Extract(w-1, 0, a)
	}
	if a.C != nil {
		return BVb(w, a.Signed())
	}
	return mk(w, "((_ sign_extend %d) %s)", w-a.W, a.S())
}
func Shl(a, b Term) Term {
	if b.C != nil {
		if b.C.Cmp(big.NewInt(int64(a.W))) >= 0 {
			return BV(a.W, 0)
		}
		if a.C != nil {
			return BVb(a.W, new(big.Int).Lsh(a.C, uint(b.C.Uint64())))
		}
		if b.C.Sign() == 0 {
			return a
		}
	}
	return mk(a.W, "(bvshl %s %s)", a.S(), ZExt(b, a.W).S())
}
func Lshr(a, b Term) Term {
	if b.C != nil {
		if b.C.Cmp(big.NewInt(int64(a.W))) >= 0 {
			return BV(a.W, 0)
		}
		if a.C != nil {
			return BVb(a.W, new(big.Int).Rsh(a.C, uint(b.C.Uint64())))
		}
		if b.C.Sign() == 0 {
			return a
		}
	}
	return mk(a.W, "(bvlshr %s %s)", a.S(), ZExt(b, a.W).S())
}
func Ashr(a, b Term) Term {
	if b.C != nil && a.C != nil {
		sh := uint(a.W)
		if b.C.Cmp(big.NewInt(int64(a.W))) < 0 {
			sh = uint(b.C.Uint64())
		}
		return BVb(a.W, new(big.Int).Rsh(a.Signed(), sh))
	}
	return mk(a.W, "(bvashr %s %s)", a.S(), ZExt(b, a.W).S())
}
func App(name string, w int, args ...Term) Term {
	var s []string
	for _, a := range args {
		s = append(s, a.S())
	}
	return reg(mk(w, "(%s %s)", name, strings.Join(s, " ")), &node{op: "app:" + name, args: append([]Term(nil), args...)})
}
func ConcatBytes(bs []Term) Term { // bs[0] is most significant
	t := bs[0]
	for _, b := range bs[1:] {
		t = Concat(t, b)
	}
	return t
}
func SplitBytes(t Term) []Term { // big-endian bytes
	n := t.W / 8
	out := make([]Term, n)
	for i := 0; i < n; i++ {
		out[i] = Extract(t.W-1-8*i, t.W-8-8*i, t)
	}
	return out
}
