package main

import (
	"crypto/aes"
	"fmt"
	"go/token"
	"go/types"
	"strings"

	"golang.org/x/tools/go/ssa"
)

type intrinsic func(e *Engine, fr *frame, args []Value) Value

var intrinsics = map[string]intrinsic{}
var rtIntrinsics = map[string]intrinsic{}
var pkgStubs = map[string]func(e *Engine, f *ssa.Function, args []Value) Value{}


var errorType types.Type // set in main: universe error

func mkErr(msg string, cause Value) Value {
	return Iface{T: opaqueErrT, V: &OpaqueErr{Msg: msg, Cause: cause}}
}

var opaqueErrT = types.NewNamed(types.NewTypeName(0, nil, "opaqueErr", nil), types.NewStruct(nil, nil), nil)

func sliceTerms(v Value) []Term {
	s := v.(Slice)
	out := make([]Term, len(s.a))
	for i := range s.a {
		out[i] = s.a[i].(Term)
	}
	return out
}
func termsSlice(ts []Term) Slice {
	a := make([]Value, len(ts))
	for i := range ts {
		a[i] = ts[i]
	}
	return Slice{a}
}

var ufDeclared = map[string]bool{}

func uf(name string, args []int, res int) {
	if !ufDeclared[name] {
		ufDeclared[name] = true
		DeclareFun(name, args, res)
	}
}

func (e *Engine) sha1Sym(in []Term) []Term { return e.hashSym("sha1", 20, in) }

type aesBlock struct{ key Term }

func (e *Engine) draw(w int, kind string) Term {
	if optVector != nil {
		if e.vecPos >= len(optVector) {
			panic(pathAbort{"vector exhausted"})
		}
		v := optVector[e.vecPos]
		e.vecPos++
		var t Term
		if w == 0 {
			t = Bool(v != 0)
		} else {
			t = BVu(w, v)
		}
		e.inputs = append(e.inputs, t)
		e.kinds = append(e.kinds, kind)
		return t
	}
	t := Fresh(w, "in")
	e.inputs = append(e.inputs, t)
	e.kinds = append(e.kinds, kind)
	return t
}

func (e *Engine) oblFor(tag string) *OblResult {
	o := e.obl[tag]
	if o == nil {
		o = &OblResult{Tag: tag}
		e.obl[tag] = o
	}
	return o
}

// modelVector evaluates the draws of this path in the model of the last sat check.
func (e *Engine) modelVector() ([]uint64, error) {
	out := make([]uint64, len(e.inputs))
	var sym []Term
	var idx []int
	for i, t := range e.inputs {
		if t.IsConst() {
			out[i] = t.C.Uint64()
		} else {
			sym = append(sym, t)
			idx = append(idx, i)
		}
	}
	if len(sym) > 0 {
		vs, err := e.solver.GetValues(sym)
		if err != nil {
			return nil, err
		}
		for k, v := range vs {
			out[idx[k]] = parseModelBig(v).Uint64()
		}
	}
	return out, nil
}

func (e *Engine) doAssert(c Term, tag string) {
	cnt, _ := e.pathData["tagcount"].(map[string]int)
	if cnt == nil {
		cnt = map[string]int{}
		e.pathData["tagcount"] = cnt
	}
	cnt[tag]++
	key := fmt.Sprintf("%s|%s|%d", tag, e.pathString(), cnt[tag])
	if e.oblSeen[key] {
		return
	}
	e.oblSeen[key] = true
	o := e.oblFor(tag)
	if c.IsConst() {
		if c.True() {
			o.Discharged++
			o.Ground++
		} else {
			o.Violated++
			if len(o.Cex) < 3 {
				// any model of the path condition is a counterexample
				cx := Cex{Path: e.pathString(), Kinds: e.kinds, Ground: true, Sched: append([]int(nil), e.schedLog...)}
				if r := e.solver.Check(); r == "sat" {
					if v, err := e.modelVector(); err == nil {
						cx.Vector = v
					} else {
						cx.Extra = err.Error()
					}
				} else {
					cx.Extra = "path condition check: " + r
				}
				o.Cex = append(o.Cex, cx)
			}
		}
		return
	}
	if o.Violated >= 3 && len(o.Cex) >= 3 {
		// the tag is violated in this run and has its counterexamples: further occurrences cannot change the
		// verdict, and on a broken tree each may cost a solver time-out
		o.NotDecided++
		return
	}
	e.solver.Push()
	e.solver.Assert(Not(c))
	r := e.solver.Check()
	if r == "sat" && e.cexPrefer != nil && len(o.Cex) < 3 {
		// prefer a witness with extra properties (e.g. an allocation large enough to be measured natively)
		e.solver.Push()
		e.solver.Assert(*e.cexPrefer)
		if e.solver.Check() == "sat" {
			o.Violated++
			cx := Cex{Path: e.pathString(), Kinds: e.kinds, Sched: append([]int(nil), e.schedLog...)}
			if v, err := e.modelVector(); err == nil {
				cx.Vector = v
			} else {
				cx.Extra = err.Error()
			}
			o.Cex = append(o.Cex, cx)
			e.solver.Pop()
			e.solver.Pop()
			return
		}
		e.solver.Pop()
		r = e.solver.Check()
	}
	switch r {
	case "unsat":
		o.Discharged++
	case "sat":
		o.Violated++
		if len(o.Cex) < 3 {
			cx := Cex{Path: e.pathString(), Kinds: e.kinds, Sched: append([]int(nil), e.schedLog...)}
			if v, err := e.modelVector(); err == nil {
				cx.Vector = v
			} else {
				cx.Extra = err.Error()
			}
			o.Cex = append(o.Cex, cx)
		}
	default:
		o.Inconclusive++
		if len(o.Notes) < 5 {
			o.Notes = append(o.Notes, "path "+e.pathString()+": "+r)
		}
	}
	e.solver.Pop()
}

func boolArg(v Value) Term { return v.(Term) }

func init() {
	// ---- harness runtime (matched by suffix so that nested modules can host their own copy)
	R := func(name string, h intrinsic) { rtIntrinsics[name] = h }
	R("Byte", func(e *Engine, fr *frame, a []Value) Value { return e.draw(8, "u8") })
	R("U16", func(e *Engine, fr *frame, a []Value) Value { return e.draw(16, "u16") })
	R("U32", func(e *Engine, fr *frame, a []Value) Value { return e.draw(32, "u32") })
	R("U64", func(e *Engine, fr *frame, a []Value) Value { return e.draw(64, "u64") })
	R("I32", func(e *Engine, fr *frame, a []Value) Value { return e.draw(32, "i32") })
	R("I64", func(e *Engine, fr *frame, a []Value) Value { return e.draw(64, "i64") })
	R("Int", func(e *Engine, fr *frame, a []Value) Value { return e.draw(64, "int") })
	R("Bool", func(e *Engine, fr *frame, a []Value) Value { return e.draw(0, "bool") })
	R("ByteIn", func(e *Engine, fr *frame, a []Value) Value {
		alpha := strVal(a[0])
		t := e.draw(8, "u8")
		if t.IsConst() {
			v := t.C.Uint64()
			for i := 0; i < len(alpha); i++ {
				if uint64(alpha[i]) == v {
					return t
				}
			}
			r := BV(8, int64(alpha[v%uint64(len(alpha))]))
			e.inputs[len(e.inputs)-1] = r
			return r
		}
		// membership as a disjunction of ranges
		in := Bool(false)
		for i := 0; i < len(alpha); {
			j := i
			for j+1 < len(alpha) && alpha[j+1] == alpha[j]+1 {
				j++
			}
			if i == j {
				in = Or(in, Eq(t, BV(8, int64(alpha[i]))))
			} else {
				in = Or(in, And(Ule(BV(8, int64(alpha[i])), t), Ule(t, BV(8, int64(alpha[j])))))
			}
			i = j + 1
		}
		e.assume(in)
		return t
	})
	R("Bytes", func(e *Engine, fr *frame, a []Value) Value {
		n := e.concretize(a[0].(Term), 0, 1<<20)
		out := make([]Value, n)
		for i := range out {
			out[i] = e.draw(8, "u8")
		}
		return Slice{out}
	})
	R("String", func(e *Engine, fr *frame, a []Value) Value {
		n := e.concretize(a[0].(Term), 0, 1<<20)
		out := make([]Term, n)
		for i := range out {
			out[i] = e.draw(8, "u8")
		}
		return mkStr(out)
	})
	R("Len", func(e *Engine, fr *frame, a []Value) Value {
		mx := a[0].(Term).Int()
		t := e.draw(64, "len")
		if t.IsConst() {
			r := BVu(64, t.C.Uint64()%uint64(mx+1))
			e.inputs[len(e.inputs)-1] = r
			return r
		}
		e.assume(And(Sle(BV(64, 0), t), Sle(t, BV(64, int64(mx)))))
		n := mx + 1
		i := e.choose(n, func(i int) Term { return Eq(t, BV(64, int64(i))) })
		e.inputs[len(e.inputs)-1] = BV(64, int64(i))
		return BV(64, int64(i))
	})
	R("Choice", func(e *Engine, fr *frame, a []Value) Value {
		n := a[0].(Term).Int()
		t := e.draw(64, "choice")
		if t.IsConst() {
			r := BVu(64, t.C.Uint64()%uint64(n))
			e.inputs[len(e.inputs)-1] = r
			return r
		}
		e.assume(And(Sle(BV(64, 0), t), Slt(t, BV(64, int64(n)))))
		i := e.choose(n, func(i int) Term { return Eq(t, BV(64, int64(i))) })
		e.inputs[len(e.inputs)-1] = BV(64, int64(i))
		return BV(64, int64(i))
	})
	R("Assume", func(e *Engine, fr *frame, a []Value) Value {
		c := a[0].(Term)
		if c.IsConst() {
			if c.False() {
				panic(infeasible{})
			}
			return nil
		}
		// the verdict for the k-th Assume under a given decision prefix never changes: cache it across the
		// re-executions of the DFS
		e.assumeN++
		key := fmt.Sprintf("%s|%d", e.pathString(), e.assumeN)
		ok, seen := e.assumeCache[key]
		if !seen {
			ok = e.feasible(c)
			e.assumeCache[key] = ok
		}
		if !ok {
			panic(infeasible{})
		}
		e.assume(c)
		return nil
	})
	R("Assert", func(e *Engine, fr *frame, a []Value) Value {
		e.doAssert(a[0].(Term), strVal(a[1]))
		return nil
	})
	R("Cover", func(e *Engine, fr *frame, a []Value) Value { e.covers[strVal(a[0])] = true; return nil })
	R("Symbolic", func(e *Engine, fr *frame, a []Value) Value { return Bool(optVector == nil) })
	R("And", func(e *Engine, fr *frame, a []Value) Value { return And(a[0].(Term), a[1].(Term)) })
	R("Or", func(e *Engine, fr *frame, a []Value) Value { return Or(a[0].(Term), a[1].(Term)) })
	R("Not", func(e *Engine, fr *frame, a []Value) Value { return Not(a[0].(Term)) })
	R("Implies", func(e *Engine, fr *frame, a []Value) Value { return Or(Not(a[0].(Term)), a[1].(Term)) })
	R("IteByte", func(e *Engine, fr *frame, a []Value) Value { return Ite(a[0].(Term), a[1].(Term), a[2].(Term)) })
	R("IteInt", func(e *Engine, fr *frame, a []Value) Value { return Ite(a[0].(Term), a[1].(Term), a[2].(Term)) })
	R("IteU64", func(e *Engine, fr *frame, a []Value) Value { return Ite(a[0].(Term), a[1].(Term), a[2].(Term)) })
	R("SameBytes", func(e *Engine, fr *frame, a []Value) Value {
		x, y := sliceTerms(a[0]), sliceTerms(a[1])
		if len(x) != len(y) {
			return Bool(false)
		}
		r := Bool(true)
		// compare as wide words so the solver sees few equalities
		for i := 0; i < len(x); i += 32 {
			j := i + 32
			if j > len(x) {
				j = len(x)
			}
			r = And(r, Eq(ConcatBytes(x[i:j]), ConcatBytes(y[i:j])))
		}
		return r
	})
	R("SameString", func(e *Engine, fr *frame, a []Value) Value {
		return e.strOp(token.EQL, a[0], a[1])
	})
	R("Catch", func(e *Engine, fr *frame, a []Value) (res Value) {
		defer func() {
			if r := recover(); r != nil {
				gp, ok := r.(goPanic)
				if !ok {
					panic(r)
				}
				res = Bool(true)
				e.lastPanic = gp.V
			}
		}()
		e.callFn(fr, a[0], nil, nil)
		return Bool(false)
	})
	// Terminates(budget, f): run f with a budget of SSA instructions; false when the budget runs out (the loop
	// it is stuck in has concrete conditions - a symbolic one is cut by the unwinding bound instead)
	R("Terminates", func(e *Engine, fr *frame, a []Value) (res Value) {
		saved := e.stepLimit
		e.stepLimit = e.Instrs + a[0].(Term).Int()
		depth := e.depth
		defer func() {
			e.stepLimit = saved
			if r := recover(); r != nil {
				if _, ok := r.(stepAbort); !ok {
					panic(r)
				}
				e.depth = depth
				res = Bool(false)
			}
		}()
		e.callFn(fr, a[1], nil, nil)
		return Bool(true)
	})
	R("ErrText", func(e *Engine, fr *frame, a []Value) Value {
		i, ok := a[0].(Iface)
		if !ok || i.T == nil {
			return "<nil>"
		}
		txt := ""
		v := i.V
		for depth := 0; depth < 8; depth++ {
			oe, ok := v.(*OpaqueErr)
			if !ok {
				txt += i.T.String()
				break
			}
			txt += oe.Msg
			c, ok := oe.Cause.(Iface)
			if !ok || c.T == nil {
				break
			}
			txt += ": "
			v = c.V
		}
		return txt
	})
	R("PanicMsg", func(e *Engine, fr *frame, a []Value) Value { return showVal(e.lastPanic) })
	R("Observe", func(e *Engine, fr *frame, a []Value) Value {
		if optVector == nil {
			return nil
		}
		ts := sliceTerms(a[1])
		var sb strings.Builder
		sb.WriteString(strVal(a[0]) + "=")
		for _, t := range ts {
			if !t.IsConst() {
				sb.WriteString("??")
			} else {
				fmt.Fprintf(&sb, "%02x", t.C.Uint64())
			}
		}
		e.observed = append(e.observed, sb.String())
		return nil
	})
	R("AllocCheck", func(e *Engine, fr *frame, a []Value) Value { return nil })
	R("AllocSampling", func(e *Engine, fr *frame, a []Value) Value {
		e.allocSmall, e.allocLarge = int64(a[0].(Term).Int()), a[1].(Term).Int()
		return nil
	})
	R("AllocBudget", func(e *Engine, fr *frame, a []Value) Value { e.allocBudget = int64(a[0].(Term).Int()); return nil })
	R("MapCandidates", func(e *Engine, fr *frame, a []Value) Value {
		m := map[string]bool{}
		for _, t := range sliceTerms(a[0]) {
			m[fmt.Sprint(mapKey(t))] = true
		}
		e.pathData["mapcands"] = m
		return nil
	})
	R("Hook", func(e *Engine, fr *frame, a []Value) Value {
		fn := a[1]
		if i, ok := fn.(Iface); ok {
			if i.T == nil { // Hook(name, nil) removes the hook
				delete(e.hooks, strVal(a[0]))
				return nil
			}
			fn = i.V
		}
		e.hooks[strVal(a[0])] = fn
		return nil
	})
	R("AssumeCollisionFree", func(e *Engine, fr *frame, a []Value) Value { e.assumeCollisionFree(); return nil })
	R("Note", func(e *Engine, fr *frame, a []Value) Value {
		if e.notes == nil {
			e.notes = map[string]bool{}
		}
		if len(e.notes) < 200 {
			e.notes[strVal(a[0])] = true
		}
		return nil
	})

	// ---- hashes
	intrinsics["crypto/sha1.Sum"] = func(e *Engine, fr *frame, a []Value) Value {
		h := e.sha1Sym(sliceTerms(a[0]))
		out := make(Array, 20)
		for i := range h {
			out[i] = h[i]
		}
		return out
	}
	// ---- aes
	intrinsics["crypto/aes.NewCipher"] = func(e *Engine, fr *frame, a []Value) Value {
		k := sliceTerms(a[0])
		if len(k) != 32 {
			return Tuple{Iface{}, mkErr("aes: invalid key size", nil)}
		}
		uf("aesE", []int{256, 128}, 128)
		uf("aesD", []int{256, 128}, 128)
		return Tuple{Iface{T: aesBlockT, V: &aesBlock{ConcatBytes(k)}}, Iface{}}
	}
	aesOp := func(name string, inv string) intrinsic {
		return func(e *Engine, fr *frame, a []Value) Value {
			b := a[0].(*aesBlock)
			dst, src := a[1].(Slice), sliceTerms(a[2])
			if len(src) < 16 || len(dst.a) < 16 {
				e.goPanicStr("crypto/aes: input/output not full block")
			}
			x := ConcatBytes(src[:16])
			if x.IsConst() && b.key.IsConst() {
				kb := make([]byte, 32)
				b.key.C.FillBytes(kb)
				xb := make([]byte, 16)
				x.C.FillBytes(xb)
				blk, _ := aes.NewCipher(kb)
				yb := make([]byte, 16)
				if name == "aesE" {
					blk.Encrypt(yb, xb)
				} else {
					blk.Decrypt(yb, xb)
				}
				for i := range yb {
					dst.a[i] = BV(8, int64(yb[i]))
				}
				return nil
			}
			// D(k, E(k, x)) -> x syntactically when visible
			if n := nodeOf(x); n != nil && n.op == "app:"+inv && sameT(n.args[0], b.key) {
				for i, t := range SplitBytes(n.args[1]) {
					dst.a[i] = t
				}
				return nil
			}
			y := App(name, 128, b.key, x)
			ax := Eq(App(inv, 128, b.key, y), x)
			if e.aesSeen == nil {
				e.aesSeen = map[string]bool{}
			}
			e.aesSeen[name] = true
			if e.aesSeen[inv] {
				for _, p := range e.axioms {
					e.solver.Assert(p)
				}
				e.axioms = nil
				e.solver.Assert(ax)
			} else {
				e.axioms = append(e.axioms, ax)
			}
			for i, t := range SplitBytes(y) {
				dst.a[i] = t
			}
			return nil
		}
	}
	intrinsics["aesBlock.Encrypt"] = aesOp("aesE", "aesD")
	intrinsics["aesBlock.Decrypt"] = aesOp("aesD", "aesE")
	intrinsics["aesBlock.BlockSize"] = func(e *Engine, fr *frame, a []Value) Value { return BV(64, 16) }
	// ---- errors / fmt
	pkgStubs["github.com/pkg/errors"] = func(e *Engine, f *ssa.Function, a []Value) Value {
		switch f.Name() {
		case "New":
			return mkErr(fmt.Sprint(a[0]), nil)
		case "Wrap", "Wrapf", "WithMessage", "WithStack":
			if i, ok := a[0].(Iface); ok && i.T == nil {
				return Iface{}
			}
			return mkErr("wrap", a[0])
		case "Errorf":
			return mkErr(fmt.Sprint(a[0]), nil)
		}
		unsupported("pkg/errors.%s", f.Name())
		return nil
	}
	pkgStubs["github.com/k0kubun/pp"] = func(e *Engine, f *ssa.Function, a []Value) Value {
		return Tuple{BV(64, 0), Iface{}}
	}
	pkgStubs["fmt"] = func(e *Engine, f *ssa.Function, a []Value) Value {
		switch f.Name() {
		case "Errorf":
			return mkErr(fmt.Sprint(a[0]), nil)
		case "Sprintf", "Sprint":
			return "<fmt>"
		case "Println", "Printf":
			return Tuple{BV(64, 0), Iface{}}
		}
		unsupported("fmt.%s", f.Name())
		return nil
	}
	intrinsics["errors.New"] = func(e *Engine, fr *frame, a []Value) Value { return mkErr(fmt.Sprint(a[0]), nil) }
	intrinsics["opaqueErr.Error"] = func(e *Engine, fr *frame, a []Value) Value { return "<error>" }
}

var aesBlockT = types.NewNamed(types.NewTypeName(0, nil, "aesBlock", nil), types.NewStruct(nil, nil), nil)

func strVal(v Value) string {
	switch s := v.(type) {
	case string:
		return s
	case SymStr:
		return "<symbolic string>"
	}
	return fmt.Sprint(v)
}

var _ = strings.Contains

type hashApp struct {
	fam  string
	n    int
	in   Term
	out  Term
}

func (e *Engine) recordHash(fam string, n int, in, out Term) {
	apps, _ := e.pathData["hashapps"].([]hashApp)
	na := hashApp{fam, n, in, out}
	if on, _ := e.pathData["collfree"].(bool); on {
		for _, a := range apps {
			e.collAxiom(a, na)
		}
	}
	e.pathData["hashapps"] = append(apps, na)
}

var truncs = [][2]int{{0, 19}, {4, 19}, {12, 19}, {0, 7}}

func (e *Engine) collAxiom(a, b hashApp) {
	if a.fam != b.fam {
		return
	}
	if a.in.S() == b.in.S() && a.n == b.n {
		return
	}
	var differ Term
	if a.n == b.n {
		differ = Not(Eq(a.in, b.in))
	} else {
		differ = Bool(true)
	}
	if differ.False() {
		return
	}
	w := a.out.W
	if w == 160 {
		for _, tr := range truncs {
			hi, lo := w-1-8*tr[0], w-8-8*tr[1]
			ax := Or(Not(differ), Not(Eq(Extract(hi, lo, a.out), Extract(hi, lo, b.out))))
			if !ax.IsConst() {
				e.solver.Assert(ax)
			}
		}
		return
	}
	ax := Or(Not(differ), Not(Eq(a.out, b.out)))
	if !ax.IsConst() {
		e.solver.Assert(ax)
	}
}

func (e *Engine) assumeCollisionFree() {
	e.pathData["collfree"] = true
	apps, _ := e.pathData["hashapps"].([]hashApp)
	for i := range apps {
		for j := 0; j < i; j++ {
			e.collAxiom(apps[j], apps[i])
		}
	}
}
