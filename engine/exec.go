package main

import (
	"fmt"
	"go/constant"
	"go/token"
	"go/types"
	"math/big"
	"os"
	"strings"
	"time"

	"golang.org/x/tools/go/ssa"
)

type Engine struct {
	unwindBound   int
	loopExitCache map[*ssa.If]int
	pathDeadline  time.Time
	prog          *ssa.Program
	solver        *Solver
	globals       map[*ssa.Global]*Value
	// path state
	dec     []int
	opts    [][]int
	max     []int
	checked []bool
	pos     int
	// stats
	Instrs        int
	stepLimit     int // verifrt.Terminates: abort the call when Instrs passes this (0 = off)
	Paths         int
	Unknowns      int
	FuncsSeen     map[string]bool
	StubsSeen     map[string]bool
	obl           map[string]*OblResult
	oblSeen       map[string]bool
	covers        map[string]bool
	observed      []string
	notes         map[string]bool
	inputs        []Term
	kinds         []string
	depth         int
	trace         bool
	initMode      bool
	curPanicFrame *frame
	lastPanic     Value
	axioms        []Term
	aesSeen       map[string]bool
	pathData      map[string]interface{} // per-path scratch for stubs
	vecPos        int
	loopCount     map[*ssa.BasicBlock]int
	elemOf        map[*Value]elemRef
	allocBudget   int64
	hooks         map[string]Value
	sch           *sched
	curFn         string
	assumeCache   map[string]bool
	assumeN       int
	switchBudget  int
	killAck       chan struct{}
	schedLog      []int
	cexPrefer     *Term
	allocSmall    int64
	allocLarge    int
	sampled       int
	sizeCapped    int
}

var sizes = types.SizesFor("gc", "amd64")

type elemRef struct {
	arr []Value
	i   int
}

type pathAbort struct{ why string }

// unwindAbort ends a path whose loop (one conditional branch of one function activation) was decided more often
// than the unwinding bound, or that ran past the run's wall limit; the run is reported truncated, never clean.
type unwindAbort struct{ why string }

type frame struct {
	fn        *ssa.Function
	env       map[ssa.Value]Value
	block     *ssa.BasicBlock
	prev      *ssa.BasicBlock
	defers    []func()
	result    Value
	panicking *goPanic
	recovered bool
	unwind    map[*ssa.If]int
}

func newEngine(prog *ssa.Program) *Engine {
	return &Engine{prog: prog, globals: map[*ssa.Global]*Value{}, FuncsSeen: map[string]bool{}, StubsSeen: map[string]bool{}, elemOf: map[*Value]elemRef{}, pathData: map[string]interface{}{}}
}

func (e *Engine) resetRun() {
	e.dec, e.max, e.checked, e.opts = nil, nil, nil, nil
	e.assumeCache = map[string]bool{}
	e.Paths, e.Unknowns = 0, 0
	e.FuncsSeen = map[string]bool{}
	e.StubsSeen = map[string]bool{}
	e.obl = map[string]*OblResult{}
	e.oblSeen = map[string]bool{}
	e.covers = map[string]bool{}
	e.observed = nil
	e.notes = nil
	e.sampled, e.sizeCapped = 0, 0
}

func (e *Engine) beginPath() {
	e.pos = 0
	e.assumeN = 0
	e.inputs = nil
	e.kinds = nil
	e.axioms = nil
	e.aesSeen = nil
	e.pathData = map[string]interface{}{}
	e.elemOf = map[*Value]elemRef{}
	e.allocBudget = 0
	e.hooks = map[string]Value{}
	e.sch = nil
	e.schedLog = nil
	e.switchBudget = 2
	e.allocSmall, e.allocLarge = 0, 0
	e.vecPos = 0
	e.depth = 0
	e.curPanicFrame = nil
	bigTab = map[*Value]*bigVal{}
	bigMetaTab = map[*bigVal]*bigMeta{}
	freshN = 0 // deterministic names per path: same draw order => same names (declared once globally)
}
func (e *Engine) endPath() { e.killThreads() }

func (e *Engine) pathString() string {
	n := e.pos
	if n > len(e.dec) {
		n = len(e.dec)
	}
	var sb strings.Builder
	for i := 0; i < n; i++ {
		if i > 0 {
			sb.WriteByte('.')
		}
		fmt.Fprintf(&sb, "%d", e.dec[i])
	}
	return sb.String()
}

func (e *Engine) feasible(c Term) bool {
	if c.IsConst() {
		return c.True()
	}
	r := e.solver.CheckWith(c)
	if r == "unsat" {
		return false
	}
	if r != "sat" {
		e.Unknowns++
	}
	return true // sat or unknown: keep
}

// choose resolves an n-way decision; cond(i) is the constraint for option i.  On the first visit the
// feasibility of every option is decided at once (one query each); the DFS then only iterates over the
// feasible ones, so no re-execution is wasted on an infeasible alternative.
func (e *Engine) choose(n int, cond func(i int) Term) int {
	if e.pos < len(e.dec) {
		opts := e.opts[e.pos]
		k := e.dec[e.pos]
		if k >= len(opts) {
			panic(infeasible{})
		}
		c := opts[k]
		e.pos++
		e.assume(cond(c))
		return c
	}
	var opts []int
	for i := 0; i < n; i++ {
		if e.feasible(cond(i)) {
			opts = append(opts, i)
		}
	}
	if len(opts) == 0 {
		if os.Getenv("GOSYM_DEBUG") != "" {
			fmt.Fprintf(os.Stderr, "infeasible (no option of %d feasible) in %s\n", n, e.curFn)
		}
		panic(infeasible{})
	}
	e.dec = append(e.dec, 0)
	e.max = append(e.max, len(opts))
	e.checked = append(e.checked, true)
	e.opts = append(e.opts, opts)
	e.pos++
	e.assume(cond(opts[0]))
	return opts[0]
}
func (e *Engine) assume(c Term) {
	if c.IsConst() {
		if c.False() {
			if os.Getenv("GOSYM_DEBUG") != "" {
				fmt.Fprintf(os.Stderr, "infeasible (assume false) in %s\n", e.curFn)
			}
			panic(infeasible{})
		}
		return
	}
	e.solver.Assert(c)
}
func (e *Engine) nextPath() bool {
	for len(e.dec) > 0 {
		l := len(e.dec) - 1
		e.dec[l]++
		e.checked[l] = false
		if e.dec[l] < e.max[l] {
			return true
		}
		e.dec, e.max, e.checked, e.opts = e.dec[:l], e.max[:l], e.checked[:l], e.opts[:l]
	}
	return false
}

// loopExit tells which successor (0/1) of a conditional branch leaves the innermost natural loop around it, or
// -1. The depth-first search takes that side first, so a loop whose condition stays symbolic is explored
// shortest iteration count first and the unwinding bound cuts the longest paths, not the first one.
func (e *Engine) loopExit(in *ssa.If) int {
	if v, ok := e.loopExitCache[in]; ok {
		return v
	}
	b := in.Block()
	res := -1
	best := -1
	for _, h := range b.Parent().Blocks {
		if !h.Dominates(b) {
			continue
		}
		// natural loop of header h: blocks that reach a back edge n->h without passing h
		body := map[*ssa.BasicBlock]bool{h: true}
		var stack []*ssa.BasicBlock
		for _, n := range h.Preds {
			if h.Dominates(n) && !body[n] {
				body[n] = true
				stack = append(stack, n)
			}
		}
		if len(stack) == 0 && !func() bool {
			for _, n := range h.Preds {
				if n == h {
					return true
				}
			}
			return false
		}() {
			continue
		}
		for len(stack) > 0 {
			n := stack[len(stack)-1]
			stack = stack[:len(stack)-1]
			for _, q := range n.Preds {
				if !body[q] {
					body[q] = true
					stack = append(stack, q)
				}
			}
		}
		if !body[b] {
			continue
		}
		// innermost = smallest body
		if best >= 0 && len(body) >= best {
			continue
		}
		// distance (in blocks) from each successor to the outside of the loop
		dist := func(from *ssa.BasicBlock) int {
			seen := map[*ssa.BasicBlock]bool{from: true}
			cur := []*ssa.BasicBlock{from}
			for d := 0; len(cur) > 0; d++ {
				var nxt []*ssa.BasicBlock
				for _, x := range cur {
					if !body[x] {
						return d
					}
					for _, y := range x.Succs {
						if !seen[y] {
							seen[y] = true
							nxt = append(nxt, y)
						}
					}
				}
				cur = nxt
			}
			return 1 << 30
		}
		d0, d1 := dist(b.Succs[0]), dist(b.Succs[1])
		best = len(body)
		switch {
		case d0 < d1:
			res = 0
		case d1 < d0:
			res = 1
		default:
			res = -1
		}
	}
	if e.loopExitCache == nil {
		e.loopExitCache = map[*ssa.If]int{}
	}
	e.loopExitCache[in] = res
	return res
}

// branchPrefer is branch with the false side explored first when falseFirst is set.
func (e *Engine) branchPrefer(c Term, falseFirst bool) bool {
	if !falseFirst {
		return e.branch(c)
	}
	return !e.branch(Not(c))
}

func (e *Engine) branch(c Term) bool {
	if c.IsConst() {
		return c.True()
	}
	i := e.choose(2, func(i int) Term {
		if i == 0 {
			return c
		}
		return Not(c)
	})
	return i == 0
}

// concretize an int term known (by the caller) to lie in [lo,hi]: enumerate the feasible values by model.
// Decision encoding: option k = "the k-th distinct model value found under this prefix"; values are
// remembered per decision slot so re-execution is deterministic.
func (e *Engine) concretize(t Term, lo, hi int) int {
	if t.IsConst() {
		return t.Int()
	}
	if hi-lo <= 8 {
		n := hi - lo + 1
		i := e.choose(n, func(i int) Term { return Eq(t, BV(t.W, int64(lo+i))) })
		return lo + i
	}
	return e.concretizeByModel(t, lo, hi)
}

type modelSlot struct {
	vals   []int
	phase  int
	nLarge int
}

var modelSlots = map[string]*modelSlot{}

func (e *Engine) concretizeByModel(t Term, lo, hi int) int {
	return e.concretizeSampled(t, 1<<62, 0)
}

// concretizeSampled enumerates the feasible values of t by model: exhaustively those <= smallMax (signed),
// then at most nLarge representatives above it (nLarge = 0: exhaustively everything).  Sampling is a stated
// bound: the run is marked (e.sampled) so the evidence says so.
func (e *Engine) concretizeSampled(t Term, smallMax int64, nLarge int) int {
	if t.IsConst() {
		return t.Int()
	}
	key := fmt.Sprintf("%p|%s|%d", e.obl, e.pathString(), e.pos)
	slot := modelSlots[key]
	if slot == nil {
		slot = &modelSlot{}
		modelSlots[key] = slot
	}
	nextVal := func(k int) (int, bool) {
		if k < len(slot.vals) {
			return slot.vals[k], true
		}
		for {
			if slot.phase == 1 && nLarge > 0 && slot.nLarge >= nLarge {
				e.sampled++
				return 0, false
			}
			e.solver.Push()
			if slot.phase == 0 && nLarge > 0 {
				e.solver.Assert(Sle(t, BV(t.W, smallMax)))
			} else if nLarge > 0 {
				e.solver.Assert(Slt(BV(t.W, smallMax), t))
			}
			for _, v := range slot.vals {
				e.solver.Assert(Not(Eq(t, BV(t.W, int64(v)))))
			}
			r := e.solver.Check()
			if r == "unsat" {
				e.solver.Pop()
				if slot.phase == 0 && nLarge > 0 {
					slot.phase = 1
					continue
				}
				return 0, false
			}
			if r != "sat" {
				e.solver.Pop()
				e.Unknowns++
				panic(pathAbort{"concretize: solver " + r})
			}
			vs, err := e.solver.GetValues([]Term{t})
			e.solver.Pop()
			if err != nil {
				panic(pathAbort{"concretize: " + err.Error()})
			}
			v := parseModelInt(vs[0], t.W)
			slot.vals = append(slot.vals, v)
			if slot.phase == 1 {
				slot.nLarge++
			}
			return v, true
		}
	}
	const maxVals = 1 << 20
	if e.pos < len(e.dec) {
		k := e.dec[e.pos]
		v, ok := nextVal(k)
		if !ok {
			e.dec[e.pos] = e.max[e.pos]
			if os.Getenv("GOSYM_DEBUG") != "" {
				fmt.Fprintf(os.Stderr, "infeasible (concretize exhausted) in %s\n", e.curFn)
			}
			panic(infeasible{})
		}
		e.checked[e.pos] = true
		e.pos++
		e.assume(Eq(t, BV(t.W, int64(v))))
		return v
	}
	v, ok := nextVal(0)
	if !ok {
		panic(infeasible{})
	}
	e.dec = append(e.dec, 0)
	e.max = append(e.max, maxVals)
	e.checked = append(e.checked, true)
	e.opts = append(e.opts, nil)
	e.pos++
	e.assume(Eq(t, BV(t.W, int64(v))))
	return v
}

// allocSize resolves the element count of a make/MakeSlice: Go's panics first, then the allocation budget
// obligation (C15), then concretisation (small sizes exhaustively, large ones sampled).
func (e *Engine) allocSize(n Term, elemBytes int, what string) int {
	if n.IsConst() {
		v := n.Signed()
		if v.Sign() < 0 || v.BitLen() > 40 {
			e.goPanicStr(what + ": len out of range")
		}
		if v.Int64() > 1<<26 {
			unsupported("%s: allocation of %d elements exceeds the engine limit", what, v.Int64())
		}
		return int(v.Int64())
	}
	if e.branch(Or(Slt(n, BV(n.W, 0)), Slt(BV(n.W, 1<<40), n))) {
		e.goPanicStr(what + ": len out of range")
	}
	limit := int64(1 << 16)
	if e.allocBudget > 0 {
		limit = e.allocBudget / int64(elemBytes)
		within := Sle(n, BV(n.W, limit))
		pref := And(Sle(BV(n.W, (1<<22)/int64(elemBytes)), n), Sle(n, BV(n.W, (1<<30)/int64(elemBytes))))
		e.cexPrefer = &pref
		e.doAssert(within, "allocation-proportional-to-input")
		e.cexPrefer = nil
		if !e.feasible(within) {
			panic(infeasible{})
		}
		e.assume(within)
	} else {
		within := Sle(n, BV(n.W, limit))
		if !e.feasible(Not(within)) {
			// fine: never larger
		} else {
			e.sizeCapped++
		}
		if !e.feasible(within) {
			panic(pathAbort{"allocation larger than the engine cap on every model"})
		}
		e.assume(within)
	}
	small, large := int64(32), 3
	if e.allocSmall > 0 {
		small, large = e.allocSmall, e.allocLarge
	}
	return e.concretizeSampled(n, small, large)
}

func parseModelInt(s string, w int) int {
	b := parseModelBig(s)
	return BVb(w, b).Int()
}
func parseModelBig(s string) *big.Int {
	b := new(big.Int)
	switch {
	case strings.HasPrefix(s, "#x"):
		b.SetString(s[2:], 16)
	case strings.HasPrefix(s, "#b"):
		b.SetString(s[2:], 2)
	case strings.HasPrefix(s, "dec:"):
		b.SetString(s[4:], 10)
	case s == "true":
		b.SetInt64(1)
	case s == "false":
		b.SetInt64(0)
	default:
		b.SetString(s, 10)
	}
	return b
}

func (e *Engine) global(g *ssa.Global) *Value {
	if p, ok := e.globals[g]; ok {
		return p
	}
	et := g.Type().(*types.Pointer).Elem()
	v := zero(et)
	if g.Pkg != nil && !isRepoPkg(g.Pkg.Pkg.Path()) {
		if n, ok := et.(*types.Named); ok && n.Obj().Pkg() == nil && n.Obj().Name() == "error" {
			v = mkErr("sentinel:"+g.Pkg.Pkg.Path()+"."+g.Name(), nil)
		}
	}
	p := &v
	e.globals[g] = p
	return p
}

func (e *Engine) constVal(c *ssa.Const) Value {
	t := c.Type()
	if c.Value == nil {
		return zero(t)
	}
	if isString(t) {
		return constant.StringVal(c.Value)
	}
	w, _ := intW(t)
	if w == 0 {
		return Bool(constant.BoolVal(c.Value))
	}
	if w > 0 {
		if b, ok := t.Underlying().(*types.Basic); ok && b.Info()&types.IsFloat != 0 {
			f, _ := constant.Float64Val(c.Value)
			return BVu(64, mathFloat64bits(f))
		}
		v := constant.ToInt(c.Value)
		bi, ok := new(big.Int).SetString(v.ExactString(), 10)
		if !ok {
			unsupported("const %v", c)
		}
		return BVb(w, bi)
	}
	unsupported("const %v : %v", c, t)
	return nil
}

func (e *Engine) get(fr *frame, v ssa.Value) Value {
	switch x := v.(type) {
	case *ssa.Const:
		return e.constVal(x)
	case *ssa.Global:
		return e.global(x)
	case *ssa.Function:
		return x
	case *ssa.Builtin:
		return x
	}
	r, ok := fr.env[v]
	if !ok {
		unsupported("unbound %s in %s", v.Name(), fr.fn)
	}
	return r
}

func (e *Engine) runFunction(fn *ssa.Function, args []Value, env []Value) (res Value) {
	if fn.Blocks == nil {
		unsupported("no body: %s", fn.String())
	}
	e.FuncsSeen[fn.String()] = true
	e.curFn = fn.String()
	e.depth++
	if e.depth > 400 {
		unsupported("call depth")
	}
	defer func() { e.depth-- }()
	fr := &frame{fn: fn, env: map[ssa.Value]Value{}}
	for i, p := range fn.Params {
		fr.env[p] = args[i]
	}
	for i, fv := range fn.FreeVars {
		fr.env[fv] = env[i]
	}
	fr.block = fn.Blocks[0]
	func() {
		defer func() {
			if r := recover(); r != nil {
				gp, ok := r.(goPanic)
				if !ok {
					panic(r)
				}
				fr.panicking = &gp
			}
		}()
		e.runBlocks(fr)
	}()
	if fr.panicking != nil || len(fr.defers) > 0 {
		e.runDefers(fr)
	}
	if fr.panicking != nil {
		panic(*fr.panicking)
	}
	if fr.recovered && fn.Recover != nil {
		fr.block = fn.Recover
		fr.prev = nil
		e.runBlocks(fr)
	}
	return fr.result
}

func (e *Engine) runDefers(fr *frame) {
	saved := e.curPanicFrame
	e.curPanicFrame = fr
	defer func() { e.curPanicFrame = saved }()
	for len(fr.defers) > 0 {
		d := fr.defers[len(fr.defers)-1]
		fr.defers = fr.defers[:len(fr.defers)-1]
		func() {
			defer func() {
				if r := recover(); r != nil {
					gp, ok := r.(goPanic)
					if !ok {
						panic(r)
					}
					fr.panicking = &gp
				}
			}()
			d()
		}()
	}
}

func (e *Engine) runBlocks(fr *frame) {
	for {
		b := fr.block
		var next *ssa.BasicBlock
		for _, in := range b.Instrs {
			e.Instrs++
			if e.stepLimit > 0 && e.Instrs > e.stepLimit {
				e.stepLimit = 0
				panic(stepAbort{})
			}
			if e.trace {
				fmt.Fprintf(os.Stderr, "%s%s: %v\n", strings.Repeat(" ", e.depth), fr.fn.Name(), in)
			}
			switch in := in.(type) {
			case *ssa.Jump:
				next = b.Succs[0]
			case *ssa.If:
				c := e.get(fr, in.Cond).(Term)
				if !c.IsConst() {
					if fr.unwind == nil {
						fr.unwind = map[*ssa.If]int{}
					}
					fr.unwind[in]++
					if fr.unwind[in] > e.unwindBound {
						panic(unwindAbort{fmt.Sprintf("unwinding bound %d exceeded in %s", e.unwindBound, fr.fn.String())})
					}
					if !e.pathDeadline.IsZero() && fr.unwind[in]&15 == 0 && time.Now().After(e.pathDeadline) {
						panic(unwindAbort{"wall limit reached inside a path in " + fr.fn.String()})
					}
				}
				if e.branchPrefer(c, !c.IsConst() && e.loopExit(in) == 1) {
					next = b.Succs[0]
				} else {
					next = b.Succs[1]
				}
			case *ssa.Return:
				switch len(in.Results) {
				case 0:
				case 1:
					fr.result = e.get(fr, in.Results[0])
				default:
					t := make(Tuple, len(in.Results))
					for i, r := range in.Results {
						t[i] = e.get(fr, r)
					}
					fr.result = t
				}
				return
			case *ssa.Panic:
				panic(goPanic{e.get(fr, in.X)})
			case *ssa.RunDefers:
				e.runDefers(fr)
				if fr.panicking != nil {
					panic(*fr.panicking)
				}
			default:
				e.step(fr, in)
			}
		}
		if next == nil {
			unsupported("fell off block")
		}
		fr.prev, fr.block = b, next
	}
}

func (e *Engine) step(fr *frame, in ssa.Instruction) {
	switch in := in.(type) {
	case *ssa.DebugRef:
	case *ssa.Alloc:
		v := zero(in.Type().(*types.Pointer).Elem())
		fr.env[in] = &v
	case *ssa.Phi:
		for i, p := range fr.block.Preds {
			if p == fr.prev {
				fr.env[in] = e.get(fr, in.Edges[i])
				break
			}
		}
	case *ssa.UnOp:
		fr.env[in] = e.unop(fr, in)
	case *ssa.BinOp:
		fr.env[in] = e.binop(in.Op, in.X.Type(), e.get(fr, in.X), e.get(fr, in.Y))
	case *ssa.Store:
		p := e.get(fr, in.Addr).(*Value)
		if p == nil {
			e.goPanicStr("nil pointer dereference (store)")
		}
		store(p, e.get(fr, in.Val))
	case *ssa.FieldAddr:
		p := e.get(fr, in.X).(*Value)
		if p == nil {
			e.goPanicStr("nil pointer dereference (fieldaddr)")
		}
		s, ok := (*p).(Struct)
		if !ok {
			unsupported("fieldaddr on %T in %s", *p, fr.fn)
		}
		fr.env[in] = &s[in.Field]
	case *ssa.Field:
		fr.env[in] = copyVal(e.get(fr, in.X).(Struct)[in.Field])
	case *ssa.IndexAddr:
		x := e.get(fr, in.X)
		idx := idx64(in.Index, e.get(fr, in.Index).(Term))
		switch x := x.(type) {
		case *Value:
			if x == nil {
				e.goPanicStr("nil pointer dereference (indexaddr)")
			}
			a := (*x).(Array)
			i := e.index(idx, len(a))
			fr.env[in] = &a[i]
			e.elemOf[&a[i]] = elemRef{[]Value(a), i}
		case Slice:
			i := e.index(idx, len(x.a))
			fr.env[in] = &x.a[i]
			e.elemOf[&x.a[i]] = elemRef{x.a[:cap(x.a)], i}
		default:
			unsupported("indexaddr %T", x)
		}
	case *ssa.Index:
		x := e.get(fr, in.X)
		idx := idx64(in.Index, e.get(fr, in.Index).(Term))
		switch x := x.(type) {
		case Array:
			fr.env[in] = copyVal(x[e.index(idx, len(x))])
		case string, SymStr:
			b := strBytes(x)
			fr.env[in] = b[e.index(idx, len(b))]
		default:
			unsupported("index %T", x)
		}
	case *ssa.Slice:
		fr.env[in] = e.slice(fr, in)
	case *ssa.MakeSlice:
		el := in.Type().Underlying().(*types.Slice).Elem()
		esz := int(sizes.Sizeof(el))
		if esz < 1 {
			esz = 1
		}
		n := e.allocSize(e.get(fr, in.Len).(Term), esz, "makeslice")
		c := n
		if ct := e.get(fr, in.Cap).(Term); !(ct.IsConst() && ct.Int() == n) {
			c = e.allocSize(ct, esz, "makeslice(cap)")
		}
		if c < n {
			e.goPanicStr("makeslice: cap out of range")
		}
		a := make([]Value, n, c)
		z := zero(el)
		_, shareable := z.(Term)
		for i := range a {
			if shareable {
				a[i] = z
			} else {
				a[i] = zero(el)
			}
		}
		fr.env[in] = Slice{a}
	case *ssa.MakeMap:
		fr.env[in] = &MapV{m: map[interface{}]Value{}, keys: map[interface{}]Value{}}
	case *ssa.MakeInterface:
		fr.env[in] = Iface{T: in.X.Type(), V: copyVal(e.get(fr, in.X))}
	case *ssa.MakeClosure:
		var env []Value
		for _, b := range in.Bindings {
			env = append(env, e.get(fr, b))
		}
		fr.env[in] = &Closure{Fn: in.Fn.(*ssa.Function), Env: env}
	case *ssa.ChangeType:
		fr.env[in] = e.get(fr, in.X)
	case *ssa.ChangeInterface:
		fr.env[in] = e.get(fr, in.X)
	case *ssa.Convert:
		fr.env[in] = e.convert(in.X.Type(), in.Type(), e.get(fr, in.X))
	case *ssa.SliceToArrayPointer:
		s := e.get(fr, in.X).(Slice)
		n := int(in.Type().(*types.Pointer).Elem().Underlying().(*types.Array).Len())
		if len(s.a) < n {
			e.goPanicStr("slice to array pointer: short")
		}
		var v Value = Array(s.a[:n:n])
		fr.env[in] = &v
	case *ssa.Extract:
		fr.env[in] = e.get(fr, in.Tuple).(Tuple)[in.Index]
	case *ssa.TypeAssert:
		fr.env[in] = e.typeAssert(in, e.get(fr, in.X).(Iface))
	case *ssa.Lookup:
		fr.env[in] = e.lookup(in, e.get(fr, in.X), e.get(fr, in.Index))
	case *ssa.MapUpdate:
		m := e.get(fr, in.Map).(*MapV)
		if m == nil {
			e.goPanicStr("assignment to entry in nil map")
		}
		k := e.get(fr, in.Key)
		kk := mapKey(k)
		if _, ok := m.m[kk]; !ok {
			m.ord = append(m.ord, kk)
		}
		m.m[kk] = copyVal(e.get(fr, in.Value))
		m.keys[kk] = k
	case *ssa.Range:
		x := e.get(fr, in.X)
		switch x := x.(type) {
		case *MapV:
			it := &mapIter{m: x}
			if x != nil {
				it.keys = append(it.keys, x.ord...)
			}
			fr.env[in] = it
		case string, SymStr:
			fr.env[in] = &strIter{b: strBytes(x)}
		default:
			unsupported("range %T", x)
		}
	case *ssa.Next:
		fr.env[in] = e.next(in, e.get(fr, in.Iter))
	case *ssa.Call:
		fr.env[in] = e.callInstr(fr, &in.Call, in)
	case *ssa.Defer:
		fn, args := e.prepareCall(fr, &in.Call)
		fr.defers = append(fr.defers, func() { e.callFn(fr, fn, args, nil) })
	case *ssa.Go:
		if e.sch == nil {
			e.initSched()
		}
		fn, args := e.prepareCall(fr, &in.Call)
		e.spawn(fr, fn, args)
	case *ssa.MakeChan:
		n := e.get(fr, in.Size).(Term)
		if !n.IsConst() {
			unsupported("symbolic channel capacity")
		}
		fr.env[in] = &ChanV{cap: n.Int(), et: in.Type().Underlying().(*types.Chan).Elem()}
	case *ssa.Send:
		c, _ := e.get(fr, in.Chan).(*ChanV)
		e.chanSend(c, e.get(fr, in.X))
	case *ssa.Select:
		fr.env[in] = e.selectInstr(fr, in)
	default:
		unsupported("instr %T: %v", in, in)
	}
}

func (e *Engine) goPanicStr(s string) {
	panic(goPanic{Iface{T: types.Typ[types.String], V: "runtime error: " + s}})
}

// idx64 widens an index to 64 bits according to its Go type (an index of type uint8 with the top bit set is 128..255,
// not a negative number)
func idx64(v ssa.Value, t Term) Term {
	if t.W >= 64 {
		return t
	}
	if bt, ok := v.Type().Underlying().(*types.Basic); ok && bt.Info()&types.IsUnsigned != 0 {
		return ZExt(t, 64)
	}
	return SExt(t, 64)
}

func (e *Engine) index(idx Term, n int) int {
	if idx.IsConst() {
		i := idx.Int()
		if i < 0 || i >= n {
			e.goPanicStr(fmt.Sprintf("index out of range [%d] with length %d", i, n))
		}
		return i
	}
	// fork: in range values, else panic
	inRange := And(Sle(BV(idx.W, 0), idx), Slt(idx, BV(idx.W, int64(n))))
	if !e.branch(inRange) {
		e.goPanicStr("index out of range (symbolic)")
	}
	if n > 64 {
		unsupported("symbolic index into %d elements", n)
	}
	return e.concretize(idx, 0, n-1)
}

func (e *Engine) bound(t Term, lo, hi int, what string) int {
	// t must be in [lo,hi] else Go panic; returns concrete
	if t.IsConst() {
		i := t.Int()
		if i < lo || i > hi {
			e.goPanicStr(fmt.Sprintf("slice bounds out of range (%s=%d, max %d)", what, i, hi))
		}
		return i
	}
	ok := And(Sle(BV(t.W, int64(lo)), t), Sle(t, BV(t.W, int64(hi))))
	if !e.branch(ok) {
		e.goPanicStr("slice bounds out of range (symbolic " + what + ")")
	}
	if hi-lo > 512 {
		unsupported("symbolic slice bound range %d", hi-lo)
	}
	return e.concretize(t, lo, hi)
}

func (e *Engine) slice(fr *frame, in *ssa.Slice) Value {
	x := e.get(fr, in.X)
	var lo, hi, mx Term
	has := func(v ssa.Value) (Term, bool) {
		if v == nil {
			return Term{}, false
		}
		return e.get(fr, v).(Term), true
	}
	switch x := x.(type) {
	case string, SymStr:
		b := strBytes(x)
		l, h := 0, len(b)
		if t, ok := has(in.High); ok {
			h = e.bound(t, 0, len(b), "high")
		}
		if t, ok := has(in.Low); ok {
			l = e.bound(t, 0, h, "low")
		}
		return mkStr(b[l:h])
	case Slice:
		c := cap(x.a)
		l, h, m := 0, len(x.a), c
		var ok bool
		if mx, ok = has(in.Max); ok {
			m = e.bound(mx, 0, c, "max")
		}
		if hi, ok = has(in.High); ok {
			h = e.bound(hi, 0, m, "high")
		}
		if lo, ok = has(in.Low); ok {
			l = e.bound(lo, 0, h, "low")
		}
		if x.a == nil {
			return Slice{}
		}
		return Slice{x.a[l:h:m]}
	case *Value:
		if x == nil {
			e.goPanicStr("nil pointer dereference (slice)")
		}
		a := (*x).(Array)
		l, h, m := 0, len(a), len(a)
		var ok bool
		if mx, ok = has(in.Max); ok {
			m = e.bound(mx, 0, len(a), "max")
		}
		if hi, ok = has(in.High); ok {
			h = e.bound(hi, 0, m, "high")
		}
		if lo, ok = has(in.Low); ok {
			l = e.bound(lo, 0, h, "low")
		}
		return Slice{[]Value(a)[l:h:m]}
	}
	unsupported("slice of %T", x)
	return nil
}

func (e *Engine) unop(fr *frame, in *ssa.UnOp) Value {
	x := e.get(fr, in.X)
	switch in.Op {
	case token.MUL: // load
		p := x.(*Value)
		if p == nil {
			e.goPanicStr("nil pointer dereference (load)")
		}
		return copyVal(*p)
	case token.NOT:
		return Not(x.(Term))
	case token.SUB:
		return Neg(x.(Term))
	case token.XOR:
		return Not(x.(Term))
	case token.ARROW:
		c, _ := x.(*ChanV)
		v, ok := e.chanRecv(c)
		if in.CommaOk {
			return Tuple{v, Bool(ok)}
		}
		return v
	}
	unsupported("unop %v", in.Op)
	return nil
}

func isSymbolicKey(v Value) bool {
	switch x := v.(type) {
	case Term:
		return !x.IsConst()
	case SymStr:
		return true
	case Iface:
		return x.T != nil && isSymbolicKey(x.V)
	case Array:
		for _, el := range x {
			if isSymbolicKey(el) {
				return true
			}
		}
	case Struct:
		for _, el := range x {
			if isSymbolicKey(el) {
				return true
			}
		}
	}
	return false
}

func mapKey(v Value) interface{} {
	switch x := v.(type) {
	case Term:
		if !x.IsConst() {
			unsupported("symbolic map key")
		}
		return fmt.Sprintf("i%d:%s", x.W, x.C.String())
	case string:
		return "s:" + x
	case *Value:
		return x
	case *ChanV:
		return x
	case Iface:
		if x.T == nil {
			return "nil-iface"
		}
		return [2]interface{}{x.T.String(), mapKey(x.V)}
	case RType:
		return "rt:" + x.T.String()
	case Array:
		s := "a:"
		for _, el := range x {
			s += fmt.Sprint(mapKey(el)) + ","
		}
		return s
	case Struct:
		s := "st:"
		for _, el := range x {
			s += fmt.Sprint(mapKey(el)) + ","
		}
		return s
	}
	unsupported("map key %T", v)
	return nil
}

type mapIter struct {
	m    *MapV
	keys []interface{}
	i    int
}
type strIter struct {
	b []Term
	i int
}

// decodeRuneSym decodes the UTF-8 sequence that starts at b[i] (i < len(b)) the way the language and unicode/utf8
// define it, forking on the shape of the sequence when bytes are symbolic: an ill-formed or truncated sequence is
// U+FFFD of width 1.
func (e *Engine) decodeRuneSym(b []Term, i int) (Term, int) {
	c := b[i]
	if e.branch(Ult(c, BV(8, 0x80))) {
		return ZExt(c, 32), 1
	}
	at := func(k int) (Term, bool) {
		if i+k < len(b) {
			return b[i+k], true
		}
		return Term{}, false
	}
	in := func(x Term, lo, hi Term) Term { return And(Ule(lo, x), Ule(x, hi)) }
	k8 := func(v int64) Term { return BV(8, v) }
	cont := func(x Term) Term { return in(x, k8(0x80), k8(0xBF)) }
	low6 := func(x Term) Term { return ZExt(And(x, k8(0x3F)), 32) }
	bad := BV(32, 0xFFFD)
	switch {
	case e.branch(in(c, k8(0xC2), k8(0xDF))):
		b1, ok := at(1)
		if !ok || !e.branch(cont(b1)) {
			return bad, 1
		}
		return Or(Shl(ZExt(And(c, k8(0x1F)), 32), BV(32, 6)), low6(b1)), 2
	case e.branch(in(c, k8(0xE0), k8(0xEF))):
		b1, ok1 := at(1)
		b2, ok2 := at(2)
		if !ok1 || !ok2 {
			// truncated: still ill-formed only if what is there cannot start a sequence; unicode/utf8 reports
			// (RuneError, 1) for every short input
			return bad, 1
		}
		lo := Ite(Eq(c, k8(0xE0)), k8(0xA0), k8(0x80))
		hi := Ite(Eq(c, k8(0xED)), k8(0x9F), k8(0xBF))
		if !e.branch(And(in(b1, lo, hi), cont(b2))) {
			return bad, 1
		}
		return Or(Or(Shl(ZExt(And(c, k8(0x0F)), 32), BV(32, 12)), Shl(low6(b1), BV(32, 6))), low6(b2)), 3
	case e.branch(in(c, k8(0xF0), k8(0xF4))):
		b1, ok1 := at(1)
		b2, ok2 := at(2)
		b3, ok3 := at(3)
		if !ok1 || !ok2 || !ok3 {
			return bad, 1
		}
		lo := Ite(Eq(c, k8(0xF0)), k8(0x90), k8(0x80))
		hi := Ite(Eq(c, k8(0xF4)), k8(0x8F), k8(0xBF))
		if !e.branch(And(And(in(b1, lo, hi), cont(b2)), cont(b3))) {
			return bad, 1
		}
		return Or(Or(Or(Shl(ZExt(And(c, k8(0x07)), 32), BV(32, 18)), Shl(low6(b1), BV(32, 12))), Shl(low6(b2), BV(32, 6))), low6(b3)), 4
	}
	return bad, 1
}

func init() {
	dec := func(e *Engine, b []Term) Value {
		if len(b) == 0 {
			return Tuple{BV(32, 0xFFFD), BV(64, 0)}
		}
		r, sz := e.decodeRuneSym(b, 0)
		return Tuple{r, BV(64, int64(sz))}
	}
	intrinsics["unicode/utf8.DecodeRuneInString"] = func(e *Engine, fr *frame, a []Value) Value { return dec(e, strBytes(a[0])) }
	intrinsics["unicode/utf8.DecodeRune"] = func(e *Engine, fr *frame, a []Value) Value { return dec(e, sliceTerms(a[0])) }
}

func (e *Engine) next(in *ssa.Next, it Value) Value {
	switch it := it.(type) {
	case *mapIter:
		for it.i < len(it.keys) {
			k := it.keys[it.i]
			it.i++
			if v, ok := it.m.m[k]; ok {
				return Tuple{Bool(true), it.m.keys[k], copyVal(v)}
			}
		}
		return Tuple{Bool(false), nil, nil}
	case *strIter:
		if it.i >= len(it.b) {
			return Tuple{Bool(false), BV(64, 0), BV(32, 0)}
		}
		c := it.b[it.i]
		symbolic := !c.IsConst()
		if !symbolic && c.C.Uint64() >= 0x80 { // concrete lead byte followed by symbolic continuation bytes
			for j := it.i + 1; j < len(it.b) && j < it.i+4; j++ {
				if !it.b[j].IsConst() {
					symbolic = true
				}
			}
		}
		if symbolic {
			i := it.i
			r, sz := e.decodeRuneSym(it.b, i)
			it.i += sz
			return Tuple{Bool(true), BV(64, int64(i)), r}
		}
		// concrete: decode utf8 natively
		buf := make([]byte, 0, 4)
		for j := it.i; j < len(it.b) && j < it.i+4 && it.b[j].IsConst(); j++ {
			buf = append(buf, byte(it.b[j].C.Uint64()))
		}
		r, sz := decodeRune(buf)
		i := it.i
		it.i += sz
		return Tuple{Bool(true), BV(64, int64(i)), BV(32, int64(r))}
	}
	unsupported("next %T", it)
	return nil
}

func (e *Engine) lookup(in *ssa.Lookup, x, idx Value) Value {
	switch x := x.(type) {
	case *MapV:
		var v Value
		ok := false
		if x != nil && isSymbolicKey(idx) {
			// symbolic key into a concrete-key map: fork over the keys it can equal, plus "absent"
			var cands []interface{}
			var conds []Term
			none := Bool(true)
			restrict, _ := e.pathData["mapcands"].(map[string]bool)
			if len(x.m) <= 16 {
				restrict = nil
			}
			for _, kk := range x.ord {
				if _, live := x.m[kk]; !live {
					continue
				}
				c := e.equal(x.keys[kk], idx)
				if c.False() {
					continue
				}
				if restrict != nil && !restrict[fmt.Sprint(kk)] {
					e.sampled++ // key outside the stated candidate set: not explored (and not excluded from "absent")
					continue
				}
				none = And(none, Not(c))
				cands = append(cands, kk)
				conds = append(conds, c)
			}
			i := e.choose(len(cands)+1, func(i int) Term {
				if i == 0 {
					return none
				}
				return conds[i-1]
			})
			if i > 0 {
				v, ok = x.m[cands[i-1]], true
			}
		} else if x != nil {
			v, ok = x.m[mapKey(idx)]
		}
		if !ok {
			v = zero(in.X.Type().Underlying().(*types.Map).Elem())
		}
		if in.CommaOk {
			return Tuple{copyVal(v), Bool(ok)}
		}
		return copyVal(v)
	case string, SymStr:
		b := strBytes(x)
		return b[e.index(idx.(Term), len(b))]
	}
	unsupported("lookup %T", x)
	return nil
}

func (e *Engine) typeAssert(in *ssa.TypeAssert, x Iface) Value {
	ok := false
	var v Value
	if x.T != nil {
		if it, isI := in.AssertedType.Underlying().(*types.Interface); isI {
			ok = types.Implements(x.T, it) || e.implementsSpecial(x, it)
			v = x
		} else {
			ok = types.Identical(x.T, in.AssertedType)
			v = x.V
		}
	}
	if in.CommaOk {
		if !ok {
			v = zero(in.AssertedType)
		}
		return Tuple{copyVal(v), Bool(ok)}
	}
	if !ok {
		tn := "nil"
		if x.T != nil {
			tn = x.T.String()
		}
		panic(goPanic{Iface{T: types.Typ[types.String], V: "interface conversion: " + tn + " is not " + in.AssertedType.String()}})
	}
	return copyVal(v)
}

func (e *Engine) implementsSpecial(x Iface, it *types.Interface) bool {
	if _, ok := x.V.(*OpaqueErr); ok {
		return it.NumMethods() == 1 && it.Method(0).Name() == "Error"
	}
	return false
}

func (e *Engine) convert(from, to types.Type, x Value) Value {
	fu, tu := from.Underlying(), to.Underlying()
	// string <-> []byte
	if isString(from) {
		if s, ok := tu.(*types.Slice); ok {
			if b, ok := s.Elem().Underlying().(*types.Basic); ok && b.Kind() == types.Uint8 {
				bs := strBytes(x)
				a := make([]Value, len(bs))
				for i := range bs {
					a[i] = bs[i]
				}
				return Slice{a}
			}
			if b, ok := s.Elem().Underlying().(*types.Basic); ok && b.Kind() == types.Int32 {
				str, ok := x.(string)
				if !ok {
					unsupported("[]rune of symbolic string")
				}
				rs := []rune(str)
				a := make([]Value, len(rs))
				for i := range rs {
					a[i] = BV(32, int64(rs[i]))
				}
				return Slice{a}
			}
		}
		if isString(to) {
			return x
		}
	}
	if isString(to) {
		if sl, ok := x.(Slice); ok {
			el := fu.(*types.Slice).Elem().Underlying().(*types.Basic)
			if el.Kind() == types.Uint8 {
				bs := make([]Term, len(sl.a))
				for i := range sl.a {
					bs[i] = sl.a[i].(Term)
				}
				return mkStr(bs)
			}
			rs := make([]rune, len(sl.a))
			for i := range sl.a {
				t := sl.a[i].(Term)
				if !t.IsConst() {
					unsupported("string of symbolic runes")
				}
				rs[i] = rune(t.Int())
			}
			return string(rs)
		}
		if t, ok := x.(Term); ok {
			if !t.IsConst() {
				unsupported("string(symbolic int)")
			}
			return string(rune(t.Int()))
		}
	}
	if _, ok := tu.(*types.Pointer); ok {
		return x
	}
	if b, ok := tu.(*types.Basic); ok && b.Kind() == types.UnsafePointer {
		return x
	}
	fw, fs := intW(from)
	tw, _ := intW(to)
	if fw > 0 && tw > 0 {
		fb, _ := fu.(*types.Basic)
		tb, _ := tu.(*types.Basic)
		ff := fb != nil && fb.Info()&types.IsFloat != 0
		tf := tb != nil && tb.Info()&types.IsFloat != 0
		t := x.(Term)
		if ff || tf {
			if ff && tf && fw == tw {
				return t
			}
			if t.IsConst() {
				return convFloatConst(t, ff, tf, fs, fw, tw)
			}
			unsupported("symbolic float conversion")
		}
		if fs {
			return SExt(t, tw)
		}
		return ZExt(t, tw)
	}
	unsupported("convert %v -> %v", from, to)
	return nil
}

func (e *Engine) binop(op token.Token, t types.Type, x, y Value) Value {
	if isString(t) || isStrVal(x) {
		return e.strOp(op, x, y)
	}
	switch xv := x.(type) {
	case Term:
		yv := y.(Term)
		w, signed := intW(t)
		isFloat := false
		if b, ok := t.Underlying().(*types.Basic); ok && b.Info()&types.IsFloat != 0 {
			isFloat = true
		}
		if isFloat {
			return floatOp(op, xv, yv)
		}
		_ = w
		switch op {
		case token.ADD:
			return Add(xv, yv)
		case token.SUB:
			return Sub(xv, yv)
		case token.MUL:
			return Mul(xv, yv)
		case token.QUO, token.REM:
			if !e.branch(Not(Eq(yv, BV(yv.W, 0)))) {
				e.goPanicStr("integer divide by zero")
			}
			return e.divConst(op, xv, yv, signed)
		case token.AND:
			return And(xv, yv)
		case token.OR:
			return Or(xv, yv)
		case token.XOR:
			return Xor(xv, yv)
		case token.AND_NOT:
			return And(xv, Not(yv))
		case token.SHL, token.SHR:
			// y may be different width; negative shift count panics for signed y (ignored: ssa checks)
			yy := yv
			if yy.W > xv.W {
				// if high bits set -> overshift
				if yy.IsConst() {
					if yy.C.Cmp(big.NewInt(int64(xv.W))) >= 0 {
						yy = BV(xv.W, int64(xv.W))
					} else {
						yy = ZExt(yy, xv.W)
					}
				} else {
					over := Ult(BV(yy.W, int64(xv.W-1)), yy)
					yy = Ite(over, BV(xv.W, int64(xv.W)), Extract(xv.W-1, 0, yy))
				}
			} else {
				yy = ZExt(yy, xv.W)
			}
			if op == token.SHL {
				return Shl(xv, yy)
			}
			if signed {
				return Ashr(xv, yy)
			}
			return Lshr(xv, yy)
		case token.EQL:
			return Eq(xv, yv)
		case token.NEQ:
			return Not(Eq(xv, yv))
		case token.LSS:
			if signed {
				return Slt(xv, yv)
			}
			return Ult(xv, yv)
		case token.LEQ:
			if signed {
				return Sle(xv, yv)
			}
			return Ule(xv, yv)
		case token.GTR:
			if signed {
				return Slt(yv, xv)
			}
			return Ult(yv, xv)
		case token.GEQ:
			if signed {
				return Sle(yv, xv)
			}
			return Ule(yv, xv)
		}
	}
	switch op {
	case token.EQL:
		return e.equal(x, y)
	case token.NEQ:
		return Not(e.equal(x, y))
	}
	unsupported("binop %v on %T", op, x)
	return nil
}

func isStrVal(v Value) bool {
	switch v.(type) {
	case string, SymStr:
		return true
	}
	return false
}

func (e *Engine) strOp(op token.Token, x, y Value) Value {
	xs, xok := x.(string)
	ys, yok := y.(string)
	if xok && yok {
		switch op {
		case token.ADD:
			return xs + ys
		case token.EQL:
			return Bool(xs == ys)
		case token.NEQ:
			return Bool(xs != ys)
		case token.LSS:
			return Bool(xs < ys)
		case token.LEQ:
			return Bool(xs <= ys)
		case token.GTR:
			return Bool(xs > ys)
		case token.GEQ:
			return Bool(xs >= ys)
		}
	}
	xb, yb := strBytes(x), strBytes(y)
	switch op {
	case token.ADD:
		return mkStr(append(append([]Term{}, xb...), yb...))
	case token.EQL, token.NEQ:
		r := Bool(len(xb) == len(yb))
		if r.True() {
			for i := range xb {
				r = And(r, Eq(xb[i], yb[i]))
			}
		}
		if op == token.NEQ {
			return Not(r)
		}
		return r
	}
	unsupported("symbolic string op %v", op)
	return nil
}

func (e *Engine) equal(x, y Value) Term {
	switch xv := x.(type) {
	case Term:
		return Eq(xv, y.(Term))
	case string, SymStr:
		return e.strOp(token.EQL, x, y).(Term)
	case *Value:
		yv, ok := y.(*Value)
		if !ok {
			return Bool(false)
		}
		return Bool(xv == yv)
	case Iface:
		yv := y.(Iface)
		if xv.T == nil || yv.T == nil {
			return Bool(xv.T == nil && yv.T == nil)
		}
		if !types.Identical(xv.T, yv.T) {
			return Bool(false)
		}
		return e.equal(xv.V, yv.V)
	case Struct:
		yv := y.(Struct)
		r := Bool(true)
		for i := range xv {
			r = And(r, e.equal(xv[i], yv[i]))
		}
		return r
	case Array:
		yv := y.(Array)
		r := Bool(true)
		for i := range xv {
			r = And(r, e.equal(xv[i], yv[i]))
		}
		return r
	case *MapV:
		yv, _ := y.(*MapV)
		return Bool(xv == yv)
	case *ChanV:
		yv, _ := y.(*ChanV)
		return Bool(xv == yv)
	case Slice:
		yv, _ := y.(Slice)
		if xv.a == nil || yv.a == nil { // only comparison with nil is legal
			return Bool(xv.a == nil && yv.a == nil)
		}
	case *OpaqueErr:
		yv, _ := y.(*OpaqueErr)
		return Bool(xv == yv)
	case *ctxStub:
		yv, _ := y.(*ctxStub)
		return Bool(xv == yv)
	case nativeFunc:
		return Bool(false)
	case RType:
		yv, ok := y.(RType)
		return Bool(ok && types.Identical(xv.T, yv.T))
	case nil:
		return Bool(y == nil)
	case *ssa.Function, *Closure:
		return Bool(false)
	}
	unsupported("equal %T", x)
	return Term{}
}

func divOp(op token.Token, x, y Term, signed bool) Term {
	if x.IsConst() && y.IsConst() {
		if signed {
			a, b := x.Signed(), y.Signed()
			if op == token.QUO {
				return BVb(x.W, new(big.Int).Quo(a, b))
			}
			return BVb(x.W, new(big.Int).Rem(a, b))
		}
		if op == token.QUO {
			return BVb(x.W, new(big.Int).Quo(x.C, y.C))
		}
		return BVb(x.W, new(big.Int).Rem(x.C, y.C))
	}
	name := map[bool]map[token.Token]string{true: {token.QUO: "bvsdiv", token.REM: "bvsrem"}, false: {token.QUO: "bvudiv", token.REM: "bvurem"}}[signed][op]
	return mk(x.W, "(%s %s %s)", name, x.S(), y.S())
}

// divConst: division / remainder by a constant that is not a power of two is expressed through fresh
// quotient and remainder constrained by  x = q*c + r  (no wrap-around: q is bounded), |r| < |c|, sign(r) =
// sign(x): solvers handle the constant multiplication far better than a 64-bit divider circuit.
func (e *Engine) divConst(op token.Token, x, y Term, signed bool) Term {
	if x.IsConst() || !y.IsConst() || x.W < 16 {
		return divOp(op, x, y, signed)
	}
	c := y.C
	if signed {
		c = y.Signed()
	}
	abs := new(big.Int).Abs(c)
	if abs.Cmp(big.NewInt(1)) <= 0 || new(big.Int).And(abs, new(big.Int).Sub(abs, big.NewInt(1))).Sign() == 0 {
		return divOp(op, x, y, signed) // 0, 1 and powers of two: shifts are cheap
	}
	// x = a*c + b with 0 <= b < c and a small enough not to wrap (both implied by the path condition, checked
	// by two range queries without any multiplication): quotient a, remainder b
	if n := nodeOf(x); n != nil && n.op == "add" {
		for _, pr := range [][2]Term{{n.a, n.b}, {n.b, n.a}} {
			m := nodeOf(pr[0])
			if m == nil || m.op != "mul" {
				continue
			}
			var a Term
			if sameT(m.b, y) {
				a = m.a
			} else if sameT(m.a, y) {
				a = m.b
			} else {
				continue
			}
			b := pr[1]
			w := x.W
			max := new(big.Int).Sub(new(big.Int).Lsh(big.NewInt(1), uint(w-1)), big.NewInt(1))
			qmax := new(big.Int).Sub(new(big.Int).Quo(max, abs), big.NewInt(1))
			inRange := And(And(Sle(BV(w, 0), b), Slt(b, BVb(w, abs))), And(Sle(BV(w, 0), a), Sle(a, BVb(w, qmax))))
			if c.Sign() > 0 && e.solver.CheckWith(Not(inRange)) == "unsat" {
				if op == token.QUO {
					return a
				}
				return b
			}
		}
	}
	key := fmt.Sprintf("div|%s|%s|%v", x.S(), y.S(), signed)
	type qr struct{ q, r Term }
	cache, _ := e.pathData["divcache"].(map[string]qr)
	if cache == nil {
		cache = map[string]qr{}
		e.pathData["divcache"] = cache
	}
	v, ok := cache[key]
	if !ok {
		w := x.W
		q, r := Fresh(w, "divq"), Fresh(w, "divr")
		e.solver.Assert(Eq(Add(Mul(q, y), r), x))
		if signed {
			max := new(big.Int).Sub(new(big.Int).Lsh(big.NewInt(1), uint(w-1)), big.NewInt(1))
			qmax := new(big.Int).Quo(max, abs)
			e.solver.Assert(And(Sle(BVb(w, new(big.Int).Neg(qmax)), q), Sle(q, BVb(w, qmax))))
			e.solver.Assert(And(Slt(BVb(w, new(big.Int).Neg(abs)), r), Slt(r, BVb(w, abs))))
			zero := BV(w, 0)
			e.solver.Assert(Or(Not(Sle(zero, x)), Sle(zero, r)))
			e.solver.Assert(Or(Not(Sle(x, zero)), Sle(r, zero)))
		} else {
			max := new(big.Int).Sub(new(big.Int).Lsh(big.NewInt(1), uint(w)), big.NewInt(1))
			e.solver.Assert(Ule(q, BVb(w, new(big.Int).Quo(max, abs))))
			e.solver.Assert(Ult(r, y))
		}
		v = qr{q, r}
		cache[key] = v
	}
	if op == token.QUO {
		return v.q
	}
	return v.r
}

// stepAbort: the instruction budget of verifrt.Terminates ran out (the call is taken not to terminate)
type stepAbort struct{}
