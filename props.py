"""Per-property job definitions for /verif/check.  jobs(tier, seed) -> list of job dicts:
  name, dir (module dir), pkg (dir relative to module), harness [files relative to /verif], runs [calls],
  solver, qtimeout(ms), timeout(s per engine process), replay (bool), covers {fn: [cover tags]}.
"""
import os

def _c05(tier, seed):
    q = tier == "quick"
    nb = [1, 2, 3, 4, 8] if q else [1, 2, 3, 4, 5, 6, 7, 8, 12, 16]
    L = 40 if q else 72
    return [
        dict(name="ige", pkg="internal/aes_ige", harness=["harness/aes_ige/c05.go"],
             runs=["H_C05_ige(%d)" % b for b in nb] + ["H_C05_lengths(%d)" % (L + 8)] + ["H_C05_encrypt(1,%d)" % L],
             validate_runs=["H_C05_ige(2)", "H_C05_lengths(48)", "H_C05_encrypt(1,40)"], solver="z3"),
        dict(name="tempkeys", pkg="internal/aes_ige", harness=["harness/aes_ige/c05.go"],
             runs=["H_C05_tempkeys()"] + ["H_C05_tempwrap_self(%d,%d)" % (a, min(a + 3, L)) for a in range(0, L + 1, 4)] + ["H_C05_tempwrap_peer(%d,%d)" % (a, min(a + 3, L)) for a in range(0, L + 1, 4)],
             validate_runs=["H_C05_tempkeys()", "H_C05_tempwrap_self(0,40)", "H_C05_tempwrap_peer(0,40)"], solver="cvc5"),
    ]

def _c03(tier, seed):
    q = tier == "quick"
    L = 40 if q else 96
    step = 8
    runs = []
    for lo in range(0, L + 1, step):
        hi = min(L, lo + step - 1)
        runs.append("H_C03_serialize(%d,%d)" % (lo, hi))
        runs.append("H_C03_open(%d,%d)" % (lo, hi))
    runs.append("H_C03_unencrypted(%d)" % (40 if q else 96))
    runs += ["H_C03_overlap(%d,%d)" % (n, w) for n in ((4, 24) if q else (0, 4, 13, 24, 40)) for w in (0, 1, 2, 3)]
    return [dict(name="envelope", pkg="internal/mtproto/messages", harness=["harness/messages/ref.go", "harness/messages/c03.go"],
                 runs=runs, validate_runs=["H_C03_serialize(0,40)", "H_C03_open(0,40)", "H_C03_unencrypted(40)"], solver="z3")]

def _c04(tier, seed):
    q = tier == "quick"
    nb = [2, 3, 4] if q else [2, 3, 4, 5, 6]
    bodies = [0, 4, 12, 16, 20] if q else [0, 1, 4, 8, 12, 15, 16, 17, 20, 32, 40]
    runs = ["H_C04_short(39)", "H_C04_unencrypted(%d)" % (40 if q else 64)]
    runs += ["H_C04_keyholder(%d)" % b for b in nb]
    runs += ["H_C04_nokey(%d,%d)" % (k, b) for k in ([0, 135, 255] if q else [0, 1, 20, 100, 135, 136, 200, 255]) for b in (1, 2)]
    runs += ["H_C04_tamper(%d,%d)" % (n, k) for n in bodies for k in range(4)]
    return [dict(name="forged", pkg="internal/mtproto/messages", harness=["harness/messages/ref.go", "harness/messages/c04.go"],
                 runs=runs, validate_runs=["H_C04_short(39)", "H_C04_unencrypted(40)", "H_C04_keyholder(3)", "H_C04_tamper(12,1)", "H_C04_tamper(12,2)"],
                 solver="cvc5", covers={"H_C04_keyholder": ["keyholder-accepted"], "H_C04_unencrypted": ["unenc-accepted"]})]

def _c08(tier, seed):
    q = tier == "quick"
    runs = []
    # word counts around the 127-word switch, plus small ones; thorough adds larger frames
    rng = [(0, 8), (120, 132)] if q else [(0, 40), (100, 140), (250, 260)]
    for v in (0, 1):
        for lo, hi in rng:
            runs.append("H_C08_write(%d,%d,%d)" % (v, lo, hi))
        runs.append("H_C08_unaligned(%d,%d)" % (v, 17 if q else 41))
        runs.append("H_C08_roundtrip(%d,%d,0,3)" % (v, 2 if q else 3))
        runs.append("H_C08_roundtrip(%d,2,125,128)" % v)
        runs.append("H_C08_readframe(%d,%d)" % (v, 6 if q else 12))
    # boundaries of the length bytes: 2^8, 2^16 words (concrete zero payload with symbolic first/last byte)
    # one reader/writer object across frames of different header forms (state must not leak between frames)
    runs += ["H_C08_sequence(%d,%d,%d)" % (v, lo, hi) for v in (0, 1) for lo, hi in ((126, 128), (255, 257), (65535, 65537))]
    runs += ["H_C08_bigframe(0,255,257)", "H_C08_bigframe(1,255,257)", "H_C08_bigframe(0,65535,65537)", "H_C08_bigframe(1,65535,65537)"]
    if not q:
        runs += ["H_C08_write(0,16383,16384)", "H_C08_write(1,16383,16384)", "H_C08_bigframe(0,1048575,1048577)", "H_C08_bigframe(1,16383,16385)"]
    runs += ["H_C08_detect(%d)" % n for n in (0, 1, 2, 3, 4, 5)]
    return [
        dict(name="mode", pkg="internal/mode", harness=["harness/mode/c08.go"], runs=runs, solver="z3",
             validate_runs=["H_C08_write(0,120,132)", "H_C08_write(1,0,8)", "H_C08_roundtrip(0,2,0,3)", "H_C08_roundtrip(1,2,125,128)", "H_C08_detect(4)"]),
        dict(name="transport", pkg="internal/transport", harness=["harness/transport/c08.go", "harness/transport/c08s.go"],
             runs=["H_C08_errcode()", "H_C08_eof(0)", "H_C08_eof(1)", "H_C08_noncode(%d)" % (28 if q else 44)], solver="z3",
             validate_runs=["H_C08_errcode()", "H_C08_noncode(28)"], covers={"H_C08_noncode": ["accepted"]}),
        dict(name="segmentation", pkg="internal/transport", harness=["harness/transport/c08.go", "harness/transport/c08s.go"],
             runs=["H_C08_segmented(%d,%d,%d,%d)" % (v, 2, 2 if q else 3, sg) for v in (0, 1) for sg in (0, 1, 2, 3)], solver="z3", walllimit=600, timeout=3000,
             replay=False, validate=False, noreplay_reason="the socket's Read/Write are replaced inside the engine (conn is a concrete *net.TCPConn; natively it needs a real TCP peer)"),
    ]

def _c17(tier, seed):
    q = tier == "quick"
    sig = 4 if q else 7
    runs = ["H_C17_table(%d,%d)" % (r, sig) for r in range(15)] + ["H_C17_arbitrary(%d)" % (24 if q else 28), "H_C17_catalogue()"]
    return [dict(name="errors", pkg=".", harness=["harness/root/c17.go"], runs=runs, solver="z3",
                 validate_runs=["H_C17_table(4,4)", "H_C17_table(5,4)", "H_C17_arbitrary(12)", "H_C17_catalogue()"],
                 covers={"H_C17_table": ["numeric", "non-numeric"], "H_C17_arbitrary": ["no-row"]}),
            dict(name="delivery", pkg=".", harness=["harness/root/net.go", "harness/root/c16.go", "harness/root/c17.go", "harness/root/c17b.go"],
                 runs=["H_C17_delivery(%d)" % r for r in ([-1, 2, 4, 5] if q else [-1] + [r for r in range(15) if r != 9])] + ["H_C17_migrate(0)", "H_C17_migrate(1)", "H_C17_migrate(2)", "H_C17_migrate_other_client()"],
                 solver="z3", walllimit=600, timeout=3000, replay="schedule", crash_tags=["process-survives"],
                 validate_runs=["H_C17_delivery(4)"], veclen=100, covers={"H_C17_migrate": ["configured", "unconfigured"]})]

def _c20(tier, seed):
    q = tier == "quick"
    sl = 2 if q else 3
    runs = []
    for sch in (0, 1, 2):
        for k in (0, 1, 2, 3):
            runs.append("H_C20_paths(%d,%d,%d,%d)" % (sch, (sch + k) % 5, k, sl))
        runs.append("H_C20_joinchat(%d,%d)" % (sch, sl))
    for portSel in range(4):
        for pathSel in range(3):
            runs.append("H_C20_hosts(%d,%d,%d,%d)" % (portSel % 2, 8 if q else 12, portSel, pathSel))
    for k in (0, 1, 2):
        runs.append("H_C20_schemeless(%d,%d)" % (5 if q else 8, k))
    runs += ["H_C20_after_caller_edit(%d,%d)" % (k, 4 if q else 8) for k in range(6)]
    runs += ["H_C20_unicode_lookalikes(%d,%d)" % (k, 2 if q else 3) for k in range(8)]
    return [dict(name="links", dir="/repo/telegram/deeplinks", pkg=".", harness=["harness/deeplinks/c20.go"], runs=runs, solver="z3", walllimit=200, timeout=600,
                 validate_runs=["H_C20_paths(1,2,1,2)", "H_C20_paths(0,2,2,2)", "H_C20_joinchat(1,2)", "H_C20_hosts(0,8,2,0)", "H_C20_schemeless(5,1)"],
                 covers={"H_C20_joinchat": ["invite"]})]

TL_HARNESS = ["harness/telegram/gen.go", "harness/telegram/num.go", "harness/telegram/c01.go", "harness/telegram/c01c.go"]
_REPO = os.environ.get("VERIF_REPO", "/repo")
TL_OVERLAY = {"/repo/internal/encoding/tl/zz_verif_export.go": "harness/tl/export.go"}
N_STRUCTS = 1168  # upper bound used to size sweeps; indices past the registry are trivial runs
N_ENUMS = 64


def _sample(seed, n, k):
    import random
    r = random.Random(seed)
    return sorted(r.sample(range(n), min(k, n)))


def _c01(tier, seed):
    q = tier == "quick"
    runs = ["H_C01_enum(%d)" % k for k in range(N_ENUMS)]
    runs += ["H_C01_container(%d,%d)" % (k, w) for k, w in ([(0, 1), (1, 3), (2, 3)] if q else [(0, 1), (1, 6), (2, 4), (3, 3)])]
    if q:
        for k in range(24):      # constructors with a shared flag bit: every single-member pattern
            for pat in range(0, 12):
                runs.append("H_C01_class(1,%d,%d,1,0)" % (k, pat))
        for k in range(34):      # MTProto service objects
            for pat in (0, 1):
                runs.append("H_C01_class(2,%d,%d,1,0)" % (k, pat))
        for k in range(70):      # greedy cover of the distinct field shapes
            for pat in (0, 1, 2, 3):
                runs.append("H_C01_class(4,%d,%d,1,0)" % (k, pat))
        for cls, n in ((1, 24), (4, 70)):   # pairwise presence patterns (every pair of conditional fields in all 4 combinations, m <= 16)
            for k in range(n):
                for q in range(8):
                    runs.append("H_C01_class(%d,%d,%d,1,0)" % (cls, k, 1000 + q))
        for idx in _sample(seed, N_STRUCTS, 100):
            for pat in (0, 1, 2, 3):
                runs.append("H_C01_rt(%d,%d,1,0)" % (idx, pat))
        kern = ["H_string(0,9,1)", "H_string(250,258,1)", "H_string_last(0,9)", "H_string_last(250,261)", "H_popmessage_arbitrary(10)", "H_string(65534,65537,0)", "H_string_too_large(0)", "H_string_too_large(1)", "H_strings_sequence(3,0,4)", "H_strings_sequence(3,254,257)", "H_strings_sequence(2,250,259)"]
    else:
        # every registered constructor with none / all / only-first / only-second; the shared-bit, service and
        # feature-cover classes with every single-member, all-but-one and pairwise pattern and at nesting depth 2
        for idx in range(N_STRUCTS):
            for pat in (0, 1, 2, 3):
                runs.append("H_C01_rt(%d,%d,1,0)" % (idx, pat))
        for cls, n in ((1, 24), (2, 34), (4, 70)):
            for k in range(n):
                for pat in list(range(4, 44)) + list(range(1000, 1010)):
                    runs.append("H_C01_class(%d,%d,%d,1,0)" % (cls, k, pat))
                for variant in (1, 2):
                    runs.append("H_C01_class(%d,%d,1,2,%d)" % (cls, k, variant))
                    runs.append("H_C01_class(%d,%d,0,2,%d)" % (cls, k, variant))
        kern = ["H_string(%d,%d,1)" % (a, a + 7) for a in range(0, 272, 8)] + ["H_string_last(%d,%d)" % (a, a + 15) for a in range(0, 288, 16)] + ["H_popmessage_arbitrary(16)", "H_string(65534,65537,0)", "H_string(16777212,16777215,0)", "H_string_too_large(0)", "H_string_too_large(1)", "H_string_too_large(5)", "H_strings_sequence(3,0,5)", "H_strings_sequence(3,252,259)", "H_strings_sequence(2,240,270)"]
    return [
        dict(name="codec", pkg="telegram", harness=TL_HARNESS, overlay=TL_OVERLAY, native_overlay=TL_OVERLAY, runs=runs, solver="z3", walllimit=120, timeout=3000,
             validate_runs=["H_C01_class(1,0,3,1,0)", "H_C01_class(2,1,0,1,0)", "H_C01_class(2,20,0,1,0)", "H_C01_rt(%d,1,1,0)" % (seed % 1000), "H_C01_enum(3)"]),
        dict(name="strings", pkg="internal/encoding/tl", harness=["harness/tl/kernel.go"], runs=kern, solver="z3", procs=len(kern), timeout=1500,
             validate_runs=["H_string(250,258,1)", "H_popmessage_arbitrary(10)"], covers={"H_popmessage_arbitrary": ["accepted"]}),
    ]

def _gen_schema(sdir):
    import subprocess, os
    out = os.path.join(sdir, "zz_schema_gen.go")
    r = subprocess.run(["python3", os.path.join(os.path.dirname(os.path.abspath(__file__)), "genschema.py"), out, _REPO + "/schemes/api_121.tl", _REPO + "/schemes/mtproto.tl"], capture_output=True, text=True)
    if r.returncode != 0:
        raise SystemExit("genschema failed: " + r.stderr)
    return [out]

TL2_HARNESS = TL_HARNESS + ["harness/telegram/c02.go", "harness/telegram/c13.go"]
N_DEFS = 1240


def _c02(tier, seed):
    q = tier == "quick"
    runs = ["H_C02_container(%d,%d)" % (k, w) for k, w in ([(0, 1), (1, 3), (2, 3)] if q else [(0, 1), (1, 6), (2, 4), (3, 3)])]
    if q:
        for k in range(24):
            for pat in range(0, 12):
                runs.append("H_C02_class(1,%d,%d,1,0)" % (k, pat))
        for k in range(34):
            for pat in (0, 1):
                runs.append("H_C02_class(2,%d,%d,1,0)" % (k, pat))
        for k in range(70):
            for pat in (0, 1, 2, 3):
                runs.append("H_C02_class(4,%d,%d,1,0)" % (k, pat))
        for cls, n in ((1, 24), (4, 70)):   # pairwise presence patterns
            for k in range(n):
                for q in range(8):
                    runs.append("H_C02_class(%d,%d,%d,1,0)" % (cls, k, 1000 + q))
        for idx in _sample(seed + 1, N_STRUCTS, 120):
            for pat in (0, 1, 2, 3):
                runs.append("H_C02_wire(%d,%d,1,0)" % (idx, pat))
        kern = ["H_string(0,9,1)", "H_string(250,258,1)", "H_string_last(250,261)", "H_string(65534,65537,0)", "H_string_too_large(0)", "H_string_too_large(1)", "H_strings_sequence(3,0,4)", "H_strings_sequence(3,254,257)", "H_strings_sequence(2,250,259)"]
    else:
        for idx in range(N_STRUCTS):
            for pat in (0, 1, 2, 3):
                runs.append("H_C02_wire(%d,%d,1,0)" % (idx, pat))
        for cls, n in ((1, 24), (2, 34), (4, 70)):
            for k in range(n):
                for pat in list(range(4, 44)) + list(range(1000, 1010)):
                    runs.append("H_C02_class(%d,%d,%d,1,0)" % (cls, k, pat))
                for variant in (1, 2):
                    runs.append("H_C02_class(%d,%d,1,2,%d)" % (cls, k, variant))
        kern = ["H_string(%d,%d,1)" % (a, a + 7) for a in range(0, 272, 8)] + ["H_string(65534,65537,0)", "H_string(16777212,16777215,0)", "H_string_too_large(0)", "H_string_too_large(1)", "H_string_too_large(5)", "H_strings_sequence(3,0,5)", "H_strings_sequence(3,252,259)", "H_strings_sequence(2,240,270)"]
    return [
        dict(name="wire", pkg="telegram", harness=TL2_HARNESS, pre=_gen_schema, overlay=TL_OVERLAY, native_overlay=TL_OVERLAY, runs=runs, solver="z3", walllimit=120, timeout=3000,
             validate_runs=["H_C02_class(1,0,3,1,0)", "H_C02_class(2,1,0,1,0)", "H_C02_wire(%d,1,1,0)" % (seed % 1000), "H_C02_wire(%d,0,1,0)" % ((seed + 500) % 1000)]),
        dict(name="strings", pkg="internal/encoding/tl", harness=["harness/tl/kernel.go"], runs=kern, solver="z3", procs=len(kern), timeout=1500, validate_runs=["H_string(250,258,1)"]),
    ]


def _c13(tier, seed):
    runs = ["H_C13_registry()", "H_C13_wrappers()"] + ["H_C13_def(%d)" % k for k in range(N_DEFS)]
    q = tier == "quick"
    wire = []
    for idx in (_sample(seed + 2, N_STRUCTS, 80) if q else range(N_STRUCTS)):
        wire.append("H_C02_wire(%d,1,1,0)" % idx)
        wire.append("H_C02_wire(%d,0,1,0)" % idx)
    methods = ["H_C13_method(%d)" % k for k in range(460)]
    return [dict(name="schema", pkg="telegram", harness=TL2_HARNESS, pre=_gen_schema, overlay=TL_OVERLAY, native_overlay=TL_OVERLAY, runs=runs + wire, solver="z3", walllimit=120, timeout=3000,
                 validate_runs=["H_C13_wrappers()", "H_C13_def(5)", "H_C13_def(900)"]),
            dict(name="methods", pkg="telegram", harness=TL2_HARNESS + ["harness/telegram/c13m.go"], pre=_gen_schema, overlay=TL_OVERLAY, native_overlay=TL_OVERLAY, runs=methods, solver="z3", walllimit=120, timeout=3000,
                 replay=False, validate=False, noreplay_reason="MakeRequest/MakeRequestWithHintToDecoder are intercepted inside the engine (verifrt.Hook); natively they would need a live transport")]

TL3_HARNESS = TL2_HARNESS + ["harness/telegram/c15.go"]
N_IDS = 1240


def _c15(tier, seed):
    q = tier == "quick"
    W = 3 if q else 4
    runs = ["H_C15_container(%d)" % (4 if q else 6), "H_C15_gzip(2,1)", "H_C15_gzip(2,0)", "H_C15_gzip(2,2)"]
    idxs = _sample(seed + 3, 1227, 70 if q else 300)
    for k in idxs:
        runs.append("H_C15_unknown(%d,%d,0)" % (k, W))
    for k in _sample(seed + 4, 1227, 20 if q else 80):
        runs.append("H_C15_unknown(%d,%d,1)" % (k, W))
    for k in _sample(seed + 5, N_STRUCTS, 30 if q else 120):
        runs.append("H_C15_named(%d,%d)" % (k, W))
    if not q:
        runs.append("H_C15_anyid(1)")
    kern = ["H_popmessage_arbitrary(%d)" % (10 if q else 16)]
    return [
        dict(name="arbitrary", pkg="telegram", harness=TL3_HARNESS, pre=_gen_schema, overlay=TL_OVERLAY, native_overlay=TL_OVERLAY, runs=runs, solver="z3", walllimit=(60 if q else 90), timeout=3000,
             validate_runs=["H_C15_unknown(%d,3,0)" % (seed % 1200), "H_C15_unknown(%d,3,1)" % ((seed + 77) % 1200), "H_C15_named(%d,3)" % ((seed + 5) % 1100), "H_C15_container(4)", "H_C15_gzip(2,1)"]),
        dict(name="strings", pkg="internal/encoding/tl", harness=["harness/tl/kernel.go"], runs=kern, solver="z3", procs=1, timeout=1500, validate_runs=kern, covers={"H_popmessage_arbitrary": ["accepted"]}),
    ]

NET_HARNESS = ["harness/root/net.go"]


def _c09(tier, seed):
    q = tier == "quick"
    runs = []
    for kind in (0, 1, 2):
        for pack in (0, 1):
            runs.append("H_C09_results(2,%d,%d)" % (kind, pack))
    runs.append("H_C09_results(3,0,0)")
    runs += ["H_C09_results(2,0,2)", "H_C09_results(2,2,2)", "H_C09_results(2,1,3)"]
    # a clock that stands still or is set back while calls are outstanding: the calls' ids must stay distinct
    runs += ["H_C09_clock(3,0,0,0)", "H_C09_clock(3,0,1,-1000000)", "H_C09_clock(2,2,0,0)", "H_C09_clock(3,1,1,0)"]
    # an rpc_error as the answer to a call that declared a vector result
    runs += ["H_C09_error_for_hinted(%d)" % k for k in (0, 1, 2)]
    if not q:
        runs += ["H_C09_clock(3,2,0,-1000000)", "H_C09_clock(3,0,2,0)", "H_C09_clock(3,0,0,-1000)"]
    if not q:
        runs += ["H_C09_results(2,0,3)", "H_C09_results(2,2,3)", "H_C09_results(2,1,2)"]
    if not q:
        runs += ["H_C09_results(3,1,1)", "H_C09_results(3,2,0)", "H_C09_results(3,2,1)"]
    # a call that declares a vector result still receives its typed slice when its request had to be re-sent
    # (salt rotation in between): the harness is shared with C11
    runs += ["H_C11_rotation_hinted(1)"] + ([] if q else ["H_C11_rotation_hinted(2)"])
    return [dict(name="rpc", pkg=".", harness=NET_HARNESS + ["harness/root/c09.go", "harness/root/c16.go", "harness/root/c11.go"], runs=runs, crash_tags=["process-survives"], solver="z3", walllimit=600, timeout=3000, replay="schedule",
                 validate_runs=["H_C09_results(2,0,0)", "H_C09_results(2,1,1)"], veclen=200)]

def _c10(tier, seed):
    q = tier == "quick"
    runs = ["H_C10_seqno()", "H_C10_acks(0)", "H_C10_acks(1)", "H_C10_order(2,0)", "H_C10_order(2,1000)", "H_C10_order(3,0)", "H_C10_order(3,1000)", "H_C10_order(3,-1000000)"]
    if not q:
        runs += ["H_C10_order(4,0)", "H_C10_order(4,1000)", "H_C10_order(3,4)"]
    return [
        dict(name="msgid", pkg="internal/utils", harness=["harness/utils/c10.go"], runs=["H_C10_msgid()"], solver="z3", validate_runs=["H_C10_msgid()"], veclen=50),
        dict(name="stream", pkg=".", harness=NET_HARNESS + ["harness/root/c10.go", "harness/root/c10r.go"], runs=runs + ["H_C10_reconnect()"], crash_tags=["process-survives"], solver="z3", walllimit=600, timeout=3000, replay="schedule",
             validate_runs=["H_C10_seqno()", "H_C10_acks(0)", "H_C10_acks(1)", "H_C10_order(2,1000)"], veclen=100),
    ]

def _c11(tier, seed):
    q = tier == "quick"
    runs = ["H_C11_new_session()", "H_C11_rotation(1,1)", "H_C11_rotation(2,1)", "H_C11_rotation(1,2)", "H_C11_rotation(2,2)"]
    runs += ["H_C11_rotation_nobody_waiting(%d)" % k for k in range(3)]
    runs += ["H_C11_rotation_hinted(1)", "H_C11_rotation_hinted(2)"]
    if not q:
        runs += ["H_C11_rotation(3,1)", "H_C11_rotation(3,2)"]
    return [dict(name="salt", pkg=".", harness=NET_HARNESS + ["harness/root/c16.go", "harness/root/c11.go"], runs=runs, solver="z3", walllimit=900, timeout=3000, replay="schedule",
                 crash_tags=["process-survives"], validate_runs=["H_C11_new_session()", "H_C11_rotation(1,1)"], veclen=100)]


def _c16(tier, seed):
    q = tier == "quick"
    runs = ["H_C16_message(%d,%d)" % (k, w) for k in range(20) for w in ((1,) if q else (0, 1))]
    # two messages in a row: every kind twice, and every kind followed by / following the stateful ones
    # (new_session_created, rpc_result for an unknown request, bad_server_salt for an unknown message)
    # (the four truncated kinds fork on the cut position: twice in a row only in the thorough tier)
    pairs = [(k, k) for k in range(20) if q is False or k not in (6, 16, 17, 18)] + [(k, j) for k in (2, 4, 19) for j in (2, 3, 4, 7, 19) if k != j]
    if not q:
        pairs += [(k, j) for k in range(20) for j in (2, 4, 19) if (k, j) not in pairs] + [(j, k) for k in range(20) for j in (2, 4, 19) if (j, k) not in pairs]
    runs += ["H_C16_sequence(%d,%d)" % p for p in pairs] + ["H_C16_repeated()", "H_C16_reconnect()"] + ["H_C16_names_client_message(%d)" % k for k in range(8)] + ["H_C16_after_key_exchange(%d)" % k for k in range(4)] + ["H_C16_reconnect_outstanding(%d)" % k for k in range(4)]
    return [dict(name="loop", pkg=".", harness=NET_HARNESS + ["harness/root/c16.go", "harness/root/c16k.go"], runs=runs, solver="z3", walllimit=600, timeout=3000, replay="schedule",
                 crash_tags=["process-survives"], validate_runs=["H_C16_message(0,1)", "H_C16_message(2,1)", "H_C16_message(9,1)"], veclen=100)]

def _c18(tier, seed):
    q = tier == "quick"
    runs = ["H_C18_refuse(%d)" % k for k in range(6)]
    for g in ((seed % 6,) if q else range(6)):
        for pl in (1, 2):
            for a in (0, 1):
                for b in (0, 1):
                    runs.append("H_C18_accept(%d,%d,%d,%d)" % (g, pl, a, b))
    return [dict(name="srp", pkg="telegram/internal/srp", harness=["harness/srp/c18.go"], runs=runs, solver="cvc5", qtimeout=30000, walllimit=600, timeout=3000,
                 validate_runs=["H_C18_accept(1,2,1,1)", "H_C18_accept(2,1,0,1)", "H_C18_refuse(4)", "H_C18_refuse(0)"], veclen=1200)]

def _c06(tier, seed):
    q = tier == "quick"
    combos = [(0, 0, 0, 0), (1, 0, 0, 0), (0, 1, 0, 0), (0, 0, 1, 0), (0, 0, 0, 1)]
    if not q:
        combos += [(0, 2, 0, 0), (0, 0, 2, 0), (0, 0, 0, 2), (0, 1, 1, 0), (0, 1, 0, 1), (0, 0, 1, 1), (1, 1, 1, 1), (0, 2, 2, 2)]
    runs = ["H_C06_handshake(%d,%d,%d,%d)" % c for c in combos]
    return [dict(name="handshake", pkg=".", harness=NET_HARNESS + ["harness/root/c06.go"], runs=runs, solver="cvc5", qtimeout=20000, walllimit=(400 if q else 1500), timeout=3000,
                 replay=False, validate=False, noreplay_reason="the client's random draws (nonces, DH exponent) and SplitPQ are supplied through engine-side hooks; natively they cannot be pinned without source hooks")]

def _c07(tier, seed):
    runs = ["H_C07_lying_server(%d)" % k for k in range(1, 17)]
    return [dict(name="lying", pkg=".", harness=NET_HARNESS + ["harness/root/c06.go"], runs=runs, solver="cvc5", qtimeout=20000, walllimit=(300 if tier == "quick" else 1200), timeout=3000,
                 replay=False, validate=False, noreplay_reason="the client's random draws and SplitPQ are supplied through engine-side hooks")]

def _c19(tier, seed):
    return [
        dict(name="handshake", pkg=".", harness=NET_HARNESS + ["harness/root/c06.go", "harness/root/c19.go"], runs=["H_C19_nonces()", "H_C19_exponent()"] + ["H_C19_source_failure(%d)" % k for k in range(3)], solver="cvc5", qtimeout=20000, walllimit=600, timeout=3000, covers={"H_C19_source_failure": ["refused", "delivered"]},
             replay=False, validate=False, noreplay_reason="provenance of random draws exists only in the engine (sources are tagged by the environment stubs)"),
        dict(name="srp", pkg="telegram/internal/srp", harness=["harness/srp/c18.go", "harness/srp/c19.go"], runs=["H_C19_srp()", "H_C19_srp_source_failure()"], solver="cvc5", qtimeout=20000, walllimit=600, timeout=3000, covers={"H_C19_srp_source_failure": ["refused", "delivered"]},
             replay=False, validate=False, noreplay_reason="provenance of random draws exists only in the engine"),
    ]

def _c12(tier, seed):
    q = tier == "quick"
    runs = ["H_C12_missing()"] + ["H_C12_paths(%d)" % k for k in range(5)]
    for kl, hl, ho in ([(0, 0, 0), (1, 2, 1), (3, 8, 4), (5, 3, 9)] if q else [(a, b, c) for a in range(0, 7) for b in (0, 3, 8) for c in (0, 5, 12)]):
        runs.append("H_C12_codec(%d,%d,%d)" % (kl, hl, ho))
    runs += ["H_C12_store_load(3,3,1)", "H_C12_store_load(3,3,0)", "H_C12_store_load2(6,5,2,1)", "H_C12_store_load2(1,0,4,6)", "H_C12_truncated(3,3)", "H_C12_two_loaders(3,3,0)", "H_C12_two_loaders(3,3,1)", "H_C12_two_loaders(3,3,2)", "H_C12_two_loaders(2,5,3)"]
    if not q:
        runs += ["H_C12_store_load(8,10,1)", "H_C12_truncated(9,12)"]
    return [dict(name="files", pkg="internal/session", harness=["harness/session/c12.go"], runs=runs, solver="z3", walllimit=300, timeout=1500,
                 validate_runs=["H_C12_codec(3,8,4)", "H_C12_store_load(3,3,0)", "H_C12_paths(3)", "H_C12_missing()"], veclen=200),
            dict(name="resume", pkg=".", harness=NET_HARNESS + ["harness/root/c16.go", "harness/root/c12r.go"],
                 runs=["H_C12_resume(%d,%d,%d)" % (c, k, h) for c, k, h in ([(0, 3, 5), (1, 3, 5), (2, 2, 4), (3, 3, 5)] if q else [(0, 6, 9), (1, 6, 9), (2, 6, 9), (3, 3, 5), (1, 0, 0)])],
                 solver="z3", walllimit=300, timeout=1500, replay=False, validate=False, crash_tags=["process-survives"],
                 noreplay_reason="the scenario writes through the symbolic file system and hooks the transport factory inside the engine")]

PROPS = {
    "C12": dict(
        jobs=_c12,
        bounds={"quick": "codec round trip for keys/hashes of lengths {0,1,3,5}/{0,2,8,3} (every residue mod 3 of base64), every 64-bit salt, hostnames of 0..9 bytes over [A-Za-z0-9.:_[]-]; Store/Load/Store/Load on one path with every pair of modification times t1 <= t2 <= t1+255 s (equality included), same and fresh loader, second session shorter or longer than the first; missing file; relative, ./relative, sub-directory, absolute paths and the bare file name; the written file cut at every byte; resume: NewMTProto on a file written by the store (symbolic key, key id, salt, address) with no / a different / the same configured host resumes with exactly those values, dials the stored address and sends its first request encrypted under the stored salt with no key exchange; without a file it starts unkeyed on the configured host; the torn file met by a fresh loader or by one that read the intact file before (damage at least one timestamp tick later), each asked twice; two loader objects on one path used alternately (A stores or loads s1, B stores s2, A stores s1 again; writes by different loaders at least one timestamp tick apart), with and without asking the loaders in between",
                "thorough": "keys 0..6, hashes {0,3,8}, hostnames {0,5,12}; longer sessions for the history and truncation scenarios"},
        outside="real file I/O and the OS's torn-write behaviour (symbolic one-level file system: os.Stat/ReadFile/WriteFile/Chtimes/Truncate modelled); real encoding/json (modelled for flat string structs without escapes: hostnames needing JSON escaping, non-ASCII, are outside); real sockets on resume (transport factory hooked inside the engine)",
        assumptions=["encoding/base64.StdEncoding modelled exactly by bit arithmetic (line breaks in input are not skipped)", "encoding/json modelled as a canonical writer / object parser for structs of plain strings", "os file functions modelled by an in-memory map; WriteFile stamps the stub clock"],
    ),
    "C19": dict(
        jobs=_c19,
        level_text="bounded symbolic execution of makeAuthKey / GetInputCheckPassword with every random source replaced by fresh symbols tagged by origin (crypto/rand, math/rand, time-seeded generator, clock); the terms sent as nonce, carried in the RSA block (new_nonce), sent as g_b / used as auth key, and sent as SRP A are inspected for the sources they mention (a term that does not mention a source cannot depend on it), and the solver shows each of them takes at least two values",
        bounds={"quick": "every path of makeAuthKey up to the point each secret is on the wire (leading-zero forks of big.Int.Bytes() included), with symbolic RSA modulus, DH prime and server values; GetInputCheckPassword for one password with symbolic modulus and server value; each of the four secrets again with an OS random source that may fail (error, no bytes) at any draw",
                "thorough": "same"},
        outside="entropy quality of the OS source; secrets other than the four named by the property; dependence that is semantic but not syntactic cannot be missed (syntactic mention over-approximates dependence), independence despite a syntactic mention would be a false alarm and is not expected",
        assumptions=["a failing OS source returns an error and zero bytes (partial reads are not modelled)", "crypto/rand.Read / crypto/rand.Int return fresh symbols tagged crypto; math/rand.* tagged prng; rand.New(rand.NewSource(..)) tagged prngseeded; time.Now tagged clock"],
        technique="bounded symbolic execution of go/ssa with source-tagged symbolic randomness; dependence read off the SMT terms, non-constancy decided by the solver",
    ),
    "C07": dict(
        jobs=_c07,
        bounds={"quick": "16 kinds of inconsistency injected one at a time into an otherwise conformant exchange (wrong nonce / server_nonce at each of the three steps and inside the inner data, no matching fingerprint incl. an empty list, server_DH_params_fail, a SHA-1 prefix that matches no split of content and padding, garbage or short encrypted answers, an inner object of another type, wrong new_nonce_hash1, dh_gen_retry, dh_gen_fail); the wrong value is symbolic (every value different from the right one)",
                "thorough": "same, longer exploration"},
        outside="several inconsistencies at once; bit flips inside the ciphertext of the DH answer other than through its SHA-1 prefix (they reach the same comparison); as C06",
        assumptions=["as C06", "SHA-1 collision-free on the path"],
    ),
    "C06": dict(
        jobs=_c06,
        bounds={"quick": "the real makeAuthKey against a reference server written from the auth_key specification, over the fake transport: nonce, new_nonce and server_nonce with 0 or 1 leading zero bytes (one field at a time; 2 in the thorough tier), all other nonce bits symbolic; symbolic RSA-2048 modulus, DH prime, server secret a and client exponent b; RSA ciphertext, g_b, g^ab and new_nonce_hash1 explored for 0..2 leading zero bytes (forks on big.Int.Bytes()); server padding of 0..15 arbitrary or zero bytes; one pq (1229739323*1402015859)",
                "thorough": "pairs of fields with leading zeros"},
        outside="SplitPQ's factoring loop (replaced by its contract p*q = pq, p < q); modular exponentiation (uninterpreted; Diffie-Hellman commutativity (g^b)^a = (g^a)^b assumed for the run's values); real sockets; the first encrypted request (C03 composes with the agreed key); values with more than 2 leading zero bytes",
        assumptions=["modexp/RSA as uninterpreted functions with range facts; DH commutativity instance assumed", "SHA-1 and AES as in C03/C05; SHA-1 collision-free on the applications of the path", "client randomness and SplitPQ supplied through engine hooks (tl.RandomInt128/256, big.Int.Rand, math.SplitPQ)"],
    ),
    "C18": dict(
        jobs=_c18,
        bounds={"quick": "passwords of 1..2 bytes, salts of 0..1 bytes, every 2048-bit modulus p (top bit set), every server value 0 < B < p sent as 256 bytes, every 256-byte client secret a, one generator g per run (seed-chosen from 2..7); A, S with 0..2 leading zero bytes; B in {0, p, p+1}, 240..247 and 257 bytes, and the empty password",
                "thorough": "all generators 2..7"},
        outside="the SRP-6a identity itself (trusted: a server holding v accepts the M1 of Telegram's client-side definition), PBKDF2/SHA internals (uninterpreted), longer passwords/salts (they only flow into hashes), rejection of a wrong password (needs injectivity facts about modexp that are not valid to assume), the group-parameter check (a stub in the repository)",
        assumptions=["modexp, the products k*v and u*x, and the reduction of k*v modulo p are uninterpreted functions with range facts (result < modulus)", "math/big.Int modelled as bit-vectors, Bytes() explored for 0..2 leading zero bytes", "SHA-256 / PBKDF2-HMAC-SHA512 uninterpreted per input length"],
    ),
    "C11": dict(
        jobs=_c11,
        bounds={"quick": "1 and 2 requests in flight, every non-empty subset of them rejected with bad_server_salt, 1 and 2 successive rotations (symbolic salts), the others accepted and answered after the rotation; a rotation with nobody waiting (bad_server_salt naming an unused id, an answered request, the client's own acknowledgement); new_session_created with a symbolic salt; the library's own receive loop over a fake transport; probe request afterwards; a hinted (vector-result) request rejected once or twice, then answered with a bare vector",
                "thorough": "3 requests in flight"},
        outside="more pending requests / rotations; a key exchange earlier in the same process (stale serviceChannel entries); real sockets; schedules that differ only between yield points",
        assumptions=["cooperative scheduling model; context and tickers stubbed (tickers never fire)", "fake transport at the messages.Common level"],
    ),
    "C16": dict(
        jobs=_c16,
        bounds={"quick": "one server message of each of 19 kinds (rpc_result / bad_server_salt / container truncated at every cut, pong, msgs_ack, new_session_created, bad_msg_notification, rpc_result for an unknown request, unregistered constructor, truncated body at every cut, empty and nested containers, unexpected objects, empty body, bare Bool/vector) with symbolic fields and odd/even seq_no, delivered to the library's own receive loop (startReadingResponses over a fake transport) with a consumer on the Warnings channel; a repeated rpc_result; after one answered and acknowledged request, a message of each of 8 kinds (bad_server_salt, rpc_result, rpc_result/rpc_error, bad_msg_notification, msgs_ack, pong, msg_detailed_info, msgs_state_info) naming the msg_id of the answered request or of the client's own acknowledgement (symbolic choice); orderly close (io.EOF) followed by reconnection through a hooked transport factory; each followed by a probe request that must complete; one reader at a time per connection (asserted inside the fake transport); two server messages in a row (every kind twice except the truncated ones, the stateful kinds crossed); the state after a key exchange in the same process (exchange request sent through the client's own service-mode path) with the server naming that request's msg_id in bad_server_salt / rpc_result / rpc_error / bad_msg_notification, twice; a request outstanding at a server close followed by a second close and / or the late answer on the newest connection",
                "thorough": "also without a Warnings consumer"},
        outside="sequences of more than two such messages; real sockets and process exit codes; gzip-packed traffic (C15 decodes it)",
        assumptions=["a panic escaping any goroutine is process death", "transport.NewTransport hooked inside the engine for the reconnect scenario (not replayable natively)"],
    ),
    "C10": dict(
        jobs=_c10,
        bounds={"quick": "msg_id arithmetic for every pair of non-decreasing clock readings below 2^31 s (symbolic); one send step from every even seq_no; 2 and 3 concurrent senders with clocks that advance 0 or 1000 ns per reading, every interleaving of clock readings and locked transport writes (yield points: time.Now, transport write); acknowledgement of 2 server messages with every odd/even seq_no combination, alone and in a container; the written stream across a server-side close and the client's own reconnect (symbolic starting seq_no); 3 senders under a clock set back by 1 ms per reading",
                "thorough": "4 concurrent senders; 4 ns clock step"},
        outside="more senders; years >= 2038 (seconds<<32 overflows int64); schedules that differ only between yield points; real sockets",
        assumptions=["time.Now stubbed: (seconds, nanoseconds) pair, non-decreasing (symbolic) or concrete with a fixed step", "cooperative scheduling model with yields at clock readings and transport writes", "division by 10^9 of sec*10^9+ns simplified after the solver confirmed 0 <= ns < 10^9 and the absence of wrap-around"],
    ),
    "C09": dict(
        jobs=_c09,
        bounds={"quick": "2 concurrent callers (3 for object results) x every answer order x {plain messages, one container} x result kinds {object, Bool, bare Vector<long> with hint}; every subset of the results gzip-packed inside rpc_result (identity-coded gzip stub) for object/vector results as plain messages and Bool results in a container; result payloads symbolic; schedules: symbolic choice of the next goroutine before and after each transport write, at most 2 pre-emptions per path (context-switch bound), deterministic lowest-id-first elsewhere; concrete clock (1 us per reading); a vector-result (hinted) request rejected once by a salt rotation and then answered; the same scenarios under a clock that stands still or is set back by 1 ms per reading; an rpc_error (plain, first in a container, gzip-packed) answering a call that declared a vector result next to an object result for another caller",
                "thorough": "3 callers for every kind/packaging; more stalled / backward clock combinations"},
        outside="more goroutines; real sockets and crypto (fake transport at the messages.Common level); real gzip streams (the stub codes gzip(x) = marker+x; native replays use real gzip); vector-of-object results; schedules that differ only between yield points",
        assumptions=["cooperative scheduling model: a goroutine runs until it blocks, finishes or reaches a transport write", "time.Now stubbed by a concrete advancing clock"],
    ),
    "C15": dict(
        jobs=_c15,
        bounds={"quick": "70 seed-chosen registered ids (enums included) followed by up to 3 arbitrary 32-bit words cut at every word boundary and one byte short of it; 20 with vector hints; 30 named decodes; msg_container and gzip_packed (identity-coded gzip stub) with arbitrary bodies; nested constructor ids from the stated candidate set (2 implementers per interface-typed field one level deep, one enum member, pong/rpc_error/msgs_ack, unregistered); allocation obligation size*elem <= 16*len(input)+4096 at every make/MakeSlice with a symbolic size; sizes <= 3 exhaustive, 1 larger representative; gzip_packed with a valid header and a damaged body (model: sticky read error), with a termination obligation (3M SSA instructions; native watchdog 5 s)",
                "thorough": "300 / 80 / 120 seed-sampled ids (unknown / hinted / named), 4 words, 90 s of exploration per id; an arbitrary first word"},
        outside="inputs longer than the bound; nested ids outside the candidate set; real gzip streams (the stub codes gzip(x) = marker+x); loops are unrolled by execution and every run ended (termination within the bound)",
        assumptions=["compress/gzip modelled as identity coding with a header marker", "reflect modelled by the engine"],
    ),
    "C02": dict(
        jobs=_c02,
        bounds={"quick": "as C01 quick, oracle = reference encoder driven by the schema text (regenerated from schemes/*.tl on every run): shared-bit constructors x 12 patterns, service objects, 120 seed-chosen constructors x 4 patterns; string headers for lengths 0..9, 250..258, 65534..65537, 2^24, 2^24+1; pairwise presence patterns as in C01; a refused value serialised immediately before the value under test; vectors of 0..3 elements, conditional slices present and empty, several byte strings through one encoder (as C01)",
                "thorough": "all registered constructors x {none, all, only-first, only-second}; the shared-bit, service-object and feature-cover classes x every single-member, all-but-one and pairwise pattern (<= 20 conditional fields) and at depth 2 with 2 implementer variants; strings 0..279, 2^24-4..2^24+5"},
        outside="as C01; gzip_packed (hand-written codec, see the known finding); vectors longer than 3",
        assumptions=["genschema.py (independent TL reader) and the reference encoder in harness/telegram/c02.go are the oracle", "pairing Go type <-> schema line is by constructor id (ids pinned by C13's ground obligations)"],
    ),
    "C13": dict(
        jobs=_c13,
        bounds={"quick": "all 1236 schema definitions (ground obligations: registered, CRC() = schema id = crc32(canonical line), field order/kind/flag bit/flags position); registry subset of schema; the 3 hand-written wrappers; byte-level agreement (C02 harness) for 80 seed-chosen constructors; all exported *Client methods: the 343 generated ones called with symbolic distinguishable arguments (request constructor = schema function id, argument i in parameter position i, decoder hint iff vector result, answer handed back unchanged - the answer being any constructor of the declared result union, one path each); for every API constructor the set of generated marker methods equals the union named by its schema line (case-insensitive), at most one",
                "thorough": "byte-level agreement for all constructors"},
        outside="a live server (client methods are driven with the transport entry points hooked inside the engine; such counterexamples are not replayable natively)",
        assumptions=["canonical-line rule as used by Telegram's own tooling (drop #id, flags.N?true parameters, bytes->string, <> and {} removed)", "msg_container's id is assigned rather than derived (documented exception)"],
    ),
    "C01": dict(
        jobs=_c01,
        bounds={"quick": "all enum members; every constructor with a shared flag bit x presence patterns {none, all, only-j, all-but-j}; all MTProto service objects; msg_container with 0..2 messages (symbolic ids, seq_nos, bodies of 1..3 words); a greedy cover of the distinct field shapes (two constructors per combination of kind/element/conditional/bit-stored/shared) x 4 patterns; 100 seed-chosen constructors x patterns {none, all, only first, only second}; leaves symbolic (int/long/double bits, bool, strings and byte strings of length 0..4, vectors of 0..2, int128/int256 with 0..2 leading zero bytes), nested objects depth 1 with the smallest implementer; strings: every length 0..9, 250..258, 65534..65537 (PutMessage/PopMessage kernels), 2^24 and 2^24+1; pairwise presence patterns (every pair of conditional fields in all four combinations, m <= 16) for the shared-bit and feature-cover classes; other codec traffic (a refused value, a different valid value) between encode and decode; vectors of 0..3 elements; doubles of every bit pattern (NaN payloads, infinities); conditional byte strings / vectors present and empty; 2-3 byte strings of lengths 0..4, 254..257, 250..259 through one encoder and one decoder; string contents are arbitrary bytes (ill-formed UTF-8 included)",
                "thorough": "all registered constructors x {none, all, only-first, only-second}; the shared-bit, service-object and feature-cover classes x every single-member, all-but-one and pairwise pattern and at depth 2 with 2 implementer variants; every string length 0..279, 2^24-4..2^24+5"},
        outside="strings longer than 4 inside a full constructor (covered through the string kernels), nesting deeper than 2, vectors longer than 3, presence patterns that differ from none/all in more than one field, gzip_packed (its encoder is not implemented: known finding), exact-consumption of trailing bytes",
        assumptions=["reflect is modelled by the engine (validated against native reflect on the differential vectors)", "math/big.Int modelled as bit-vectors; Bytes() explored for 0..2 leading zero bytes"],
    ),
    "C20": dict(
        jobs=_c20,
        bounds={"quick": "schemes {none, http, https}; the 5 reserved hosts and every host text of length 0..8 over [A-Za-z0-9.-] (look-alikes), ports {none, ':', ':443', ':8080'}; paths of 0..3 segments, each 0..2 bytes over [A-Za-z0-9._~-]; /joinchat/<token> with token 0..2 and arbitrary 8-byte first segments; scheme-less texts incl. the bare host; every reserved host after a caller replaced that entry of the slice ReservedHosts() returned by an arbitrary host of 4 bytes; 8 hosts that differ from a reserved host in one non-ASCII look-alike character (long s, Kelvin sign, Cyrillic e, full-width t, dotless i, ...) with any scheme / port and a symbolic username or invite; a reserved host spelled in another ASCII case is neither required to resolve nor to be refused (if it resolves, the answer must be right)",
                "thorough": "host texts 0..12, segments 0..3, scheme-less hosts 0..8"},
        outside="url.Parse itself (the engine runs resolveHttpLink on the URL value Parse yields; counterexamples are re-validated natively through the public Resolve on the text); other schemes (tg://, ftp://: the scheme switch sits behind url.Parse); percent-escapes, query/fragment, non-ASCII",
        assumptions=["for the stated alphabets url.Parse passes host and path through unchanged (checked natively on every replayed counterexample and on the differential validation vectors)"],
    ),
    "C17": dict(
        jobs=_c17,
        bounds={"quick": "each of the 15 table rows with every parameter string of length 0..4 (all bytes symbolic: digits, signs, non-digits, '%'); every error text of length 0..24 with every 32-bit code; all catalogue entries (ground); each table row also through RpcErrorToNative; delivery: two callers in flight over the library's own receive loop, rpc_error (every code; arbitrary text of 0..6 bytes or rows FILE_PART/FLOOD_WAIT/INTERDC with a 1..2 digit parameter) addressed to either of them, answered in either order; PHONE_MIGRATE_d for every digit d against a list configuring data centres 2 and 4 (transport factory hooked), alone and with a second call in flight; PHONE_MIGRATE_2 / _7 on a client while another client of the process configured data centres 2 and 7 through SetDCList; PHONE_MIGRATE on a call that declared a vector result (the repeated request is answered with a bare vector)",
                "thorough": "parameter strings 0..7; texts 0..28; delivery for all 14 non-migration rows"},
        outside="longer texts / parameters (incl. integers overflowing int); formatting of descriptions that take a parameter (fmt is stubbed); real reconnection (sockets, a new key exchange on the new data centre); what happens to other calls in flight during a migration beyond 'the client survives'; more than two callers",
        assumptions=["fmt.Sprintf/Errorf and pkg/errors are opaque total functions", "cooperative scheduling model, fake transport at the messages.Common level, transport.NewTransport hooked inside the engine for the migration scenario (not replayable natively)"],
    ),
    "C08": dict(
        jobs=_c08,
        bounds={"quick": "abridged/intermediate frames for every word count 0..8 and 120..132 (both sides of the 127-word switch), all payload bits symbolic; unaligned lengths 0..17; sequences of 2 messages; arbitrary headers for <= 6 words; Detect on every 0..5 byte prefix; transport.ReadMsg: every 32-bit error word, frames of 0..28 bytes; segmentation: 2 messages of 0..2 words (the empty message included) and a four-byte error frame through the connection object built by the library's own NewTCP (resolve/dial hooked) + go-dry CancelableReader (goroutines executed) + real mode, socket reads unsplit / one byte at a time / split at every pair of cut points, and a 127-word first message with cuts inside its long header; one writer and one reader object over big-small-big-small frame sequences around 127, 256 and 65536 words",
                "thorough": "word counts 0..40, 100..140, 250..260, 16383..16384; sequences of 3; headers <= 12 words; frames 0..44"},
        outside="the kernel's TCP stack itself ((*net.conn).Read/Write are replaced inside the engine by a source that hands out arbitrary segments; more than two cut points except the one-byte-per-read case); read deadlines / timeouts; abridged lengths >= 2^24 words; frames longer than the bounds",
        assumptions=["mode-level harnesses use a connection with the exact-count read contract; the segmentation harness checks that tcpConn provides it over a socket that returns short reads"],
    ),
    "C04": dict(
        jobs=_c04,
        bounds={"quick": "short packets: every length 0..39; key-holder forgeries: inner plaintext of 2..4 blocks with every bit (incl. the declared int32 length) symbolic; tampering: honest packets with bodies {0,4,12,16,20}, every single-bit flip position of key id / ciphertext, every truncation length, any other key; unencrypted parser: all inputs of length 0..40; no auth key yet / a short key (0, 135, 255 bytes) with arbitrary packets or packets carrying that key's id; wrong msg_key built as real hash xor any non-zero difference",
                "thorough": "key-holder 2..6 blocks; tamper bodies {0,1,4,8,12,15,16,17,20,32,40}; unencrypted 0..64"},
        outside="longer packets; flips inside msg_key (acceptance there is a SHA-1 preimage event that the uninterpreted-function model cannot exclude); SHA-1/AES internals",
        assumptions=["SHA-1 uninterpreted per input length, AES uninterpreted permutation pair", "tamper harness: SHA-1 (and its 4..19 / 12..19 / 0..7 byte truncations) collision-free on the hash applications of the path (AssumeCollisionFree)"],
    ),
    "C03": dict(
        jobs=_c03,
        bounds={"quick": "bodies 0..40 bytes (every residue mod 16), all key/salt/session/msg_id/seq_no/ack/body/padding bits symbolic; two connections sealing at overlapping moments (connection B seals a whole message while A is at any of its four informator calls), bodies of 4 and 24 bytes",
                "thorough": "bodies 0..96 bytes"},
        outside="bodies longer than the bound (IGE/SHA loops need concrete structure); SHA-1/AES internals",
        assumptions=["SHA-1 uninterpreted per input length, AES uninterpreted permutation pair (ground inverse axioms)",
                     "reference envelope (harness/messages/ref.go) written from the MTProto 1.0 description"],
    ),
    "C05": dict(
        jobs=_c05,
        bounds={"quick": "IGE block counts {1,2,3,4,8}; all lengths 0..48 for the refusal rule; Encrypt payloads 1..40; temp keys for all nonce values with 0..2 leading zero bytes; key-exchange wrappers for every payload length 0..40 (own sealing with arbitrary random padding, and a conformant peer with 0..15 padding bytes); all key/IV/data/nonce bits symbolic",
                "thorough": "IGE block counts 1..8,12,16; lengths 0..80; Encrypt and wrapper payloads up to 72"},
        outside="longer inputs; AES itself (uninterpreted permutation pair with D(k,E(k,x))=x); SHA-1 (uninterpreted per input length)",
        assumptions=["crypto/aes Block.Encrypt/Decrypt modelled as uninterpreted functions E,D: BV256 x BV128 -> BV128 with ground inverse axioms",
                     "crypto/sha1.Sum modelled as one uninterpreted function per input length", "wrapper harnesses: SHA-1 collision-free on the path's applications (the trimming loop compares digests at up to 16 cut points)", "math/rand.Read (dry.RandomBytes) returns arbitrary bytes", "math/big.Int as bit-vectors; nonces with more than 2 leading zero bytes are outside the bound"],
    ),
}
