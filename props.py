"""Per-property job definitions for /verif/check.  jobs(tier, seed) -> list of job dicts:
  name, dir (module dir), pkg (dir relative to module), harness [files relative to /verif], runs [calls],
  solver, qtimeout(ms), timeout(s per engine process), replay (bool), covers {fn: [cover tags]}.
"""

def _c05(tier, seed):
    q = tier == "quick"
    nb = [1, 2, 3, 4, 8] if q else [1, 2, 3, 4, 5, 6, 7, 8, 12, 16]
    L = 40 if q else 72
    return [
        dict(name="ige", pkg="internal/aes_ige", harness=["harness/aes_ige/c05.go"],
             runs=["H_C05_ige(%d)" % b for b in nb] + ["H_C05_lengths(%d)" % (L + 8)] + ["H_C05_encrypt(1,%d)" % L],
             validate_runs=["H_C05_ige(2)", "H_C05_lengths(48)", "H_C05_encrypt(1,40)"], solver="z3"),
    ]

PROPS = {
    "C05": dict(
        jobs=_c05,
        bounds={"quick": "IGE block counts {1,2,3,4,8}; all lengths 0..48 for the refusal rule; Encrypt payloads 1..40; all key/IV/data bits symbolic",
                "thorough": "IGE block counts 1..8,12,16; lengths 0..80; Encrypt payloads 1..72"},
        outside="longer inputs; AES itself (uninterpreted permutation pair with D(k,E(k,x))=x); SHA-1 (uninterpreted per input length)",
        assumptions=["crypto/aes Block.Encrypt/Decrypt modelled as uninterpreted functions E,D: BV256 x BV128 -> BV128 with ground inverse axioms",
                     "crypto/sha1.Sum modelled as one uninterpreted function per input length"],
    ),
}
