#!/bin/bash
# tools/tryseed.sh <seed-dir-name> <check args...>: apply a stored seed to a scratch worktree and run a check on it
S=$1; shift
T=/var/tmp/try-$S-$$
git -C /repo worktree add -q --detach $T HEAD
git -C $T apply /verif/seeded/$S/patch.diff || { echo "patch failed"; }
cd /verif
VERIF_REPO=$T VERIF_OUT=/var/tmp/out-try-$S-$$ VERIF_EVIDENCE_DIR=/var/tmp/ev-try-$S ./check "$@" 2>&1 | grep -E "^(VIOLATION|BROKEN|INCONCLUSIVE|KNOWN|C[0-9][0-9] tier)" | cut -c1-330 | head -12
echo "exit=${PIPESTATUS[0]}"
git -C /repo worktree remove --force $T
rm -rf /var/tmp/out-try-$S-$$ /var/tmp/ev-try-$S
