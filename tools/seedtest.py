#!/usr/bin/env python3
"""tools/seedtest.py <seed-dir> [--check Cxx ...] : confirm a seeded change (builds, suite passes, demo fails with
it and passes without) in a scratch worktree, then run the named checks against /repo with the change applied."""
import json, os, subprocess, sys, shutil
ENV = dict(os.environ, GOFLAGS="-mod=mod", GOPROXY="off", GOSUMDB="off", GOTOOLCHAIN="local")

def sh(cmd, cwd, timeout=1200):
    p = subprocess.run(cmd, cwd=cwd, env=ENV, shell=True, capture_output=True, text=True, timeout=timeout)
    return p.returncode, (p.stdout + p.stderr)[-3000:]

def main():
    sd = os.path.abspath(sys.argv[1])
    checks = sys.argv[3:] if len(sys.argv) > 2 and sys.argv[2] == "--check" else []
    meta = json.load(open(os.path.join(sd, "meta.json")))
    demo_rel = open(os.path.join(sd, "demo_path.txt")).read().strip()
    demo_file = [f for f in os.listdir(sd) if f.endswith("_test.go")][0]
    wt = "/var/tmp/seedwt-%d" % os.getpid()
    sh("git -C /repo worktree add -q --detach %s HEAD" % wt, "/")
    res = {}
    try:
        moddir = wt
        if demo_rel.startswith("telegram/deeplinks/"):
            moddir = os.path.join(wt, "telegram/deeplinks")
        pkg = "./" + os.path.dirname(os.path.relpath(os.path.join(wt, demo_rel), moddir))
        rc, out = sh("git apply %s" % os.path.join(sd, "patch.diff"), wt)
        res["applies"] = rc == 0
        if rc != 0:
            print("PATCH DOES NOT APPLY", out)
        rc, out = sh("go build ./...", moddir); res["builds"] = rc == 0
        rc, out = sh("go test -vet=off -count=1 ./...", wt)
        rc2, out2 = (0, "")
        if moddir != wt:
            rc2, out2 = sh("go test -vet=off -count=1 ./...", moddir)
        res["suite_passes_with_change"] = rc == 0 and rc2 == 0
        shutil.copy(os.path.join(sd, demo_file), os.path.join(wt, demo_rel))
        rc, out = sh("go test -vet=off -count=1 -run 'Seed|seed|ZZ' %s" % pkg, moddir); res["demo_fails_with_change"] = rc != 0
        sh("git apply -R %s" % os.path.join(sd, "patch.diff"), wt)
        rc, out = sh("go test -vet=off -count=1 -run 'Seed|seed|ZZ' %s" % pkg, moddir); res["demo_passes_without_change"] = rc == 0
        if rc != 0:
            print(out)
    finally:
        sh("git -C /repo worktree remove --force %s" % wt, "/")
    print("confirmation:", res)
    meta["confirmed"] = res
    # run checks against /repo with the patch applied
    det = {}
    target = os.environ.get("SEED_TARGET", "/repo")  # a scratch worktree for trial runs; /repo for the record
    envp = "VERIF_EVIDENCE_DIR=/verif/out/seed-evidence "
    if target != "/repo":
        envp += "VERIF_REPO=%s VERIF_OUT=/var/tmp/out-%s " % (target, os.path.basename(target))
    if checks and all(res.values()):
        rc, out = sh("git -C %s apply %s" % (target, os.path.join(sd, "patch.diff")), "/")
        try:
            for c in checks:
                tier = "quick"
                if ":" in c:
                    c, tier = c.split(":")
                rc, out = sh(envp + "./check %s --tier %s" % (c, tier), "/verif", timeout=6000)
                lines = [l for l in out.splitlines() if l.startswith("VIOLATION") or l.startswith("BROKEN") or l.startswith("INCONCLUSIVE")]
                det["%s:%s" % (c, tier)] = {"exit": rc, "lines": [l[:300] for l in lines[:6]]}
                print(c, tier, "exit", rc)
                for l in lines[:6]:
                    print("   ", l[:300])
        finally:
            sh("git -C %s checkout -- ." % target, "/")
    if target == "/repo":
        meta["detected_by"] = det
    json.dump(meta, open(os.path.join(sd, "meta.json"), "w"), indent=1)

main()
