#!/bin/bash
# run every stored seeded change against the check(s) of its property; one line per seed
cd /verif
for d in seeded/*/; do
  s=$(basename $d); id=${s:0:3}
  extra=""
  out=$(python3 tools/seedtest.py seeded/$s --check $id $extra 2>&1)
  rc=$(echo "$out" | grep -o "$id quick exit [0-9]*" | head -1)
  nv=$(echo "$out" | grep -c "VIOLATION property=")
  echo "$s: $rc violations=$nv"
done
git -C /repo status --short | head -3
