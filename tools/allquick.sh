#!/bin/bash
# run every registered quick check on /repo's working tree, one line per property
cd /verif
for id in C01 C02 C03 C04 C05 C06 C07 C08 C09 C10 C11 C12 C13 C15 C16 C17 C18 C19 C20; do
  t0=$(date +%s)
  out=$(./check $id --tier ${1:-quick} 2>&1); rc=$?
  echo "$id rc=$rc $(( $(date +%s) - t0 ))s $(echo "$out" | grep -c VIOLATION) violations; $(echo "$out" | grep -c KNOWN-FINDING) known; $(echo "$out" | grep -E 'INCONCLUSIVE|BROKEN' | head -2 | tr '\n' ' ' | cut -c1-200)"
done
