#!/bin/bash
# tools/newseed.sh <Cnn> <suffix> [checks...]: take a sub-agent's delivery from /tmp/seedout/<Cnn>, store it as
# seeded/<Cnn>-<suffix>, confirm it in a scratch worktree and run the property's check against a scratch worktree
# with the change applied (never /repo, so that background runs on /repo are not disturbed).
set -u
P=$1; S=$2; shift 2
CH=${@:-$P}
cd /verif
D=seeded/$P-$S
mkdir -p $D
cp /tmp/seedout/$P/patch.diff /tmp/seedout/$P/zz_seed_test.go /tmp/seedout/$P/demo_path.txt /tmp/seedout/$P/meta.json $D/ || exit 3
git -C /repo worktree remove --force /tmp/seedwt/$P 2>/dev/null
T=/var/tmp/seedtarget-$P
git -C /repo worktree add -q --detach $T HEAD
SEED_TARGET=$T python3 tools/seedtest.py $D --check $CH
git -C /repo worktree remove --force $T
rm -rf /var/tmp/out-seedtarget-$P
