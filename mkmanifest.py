#!/usr/bin/env python3
"""Regenerates MANIFEST.json from props.py (claimed properties) and NA (not applicable / not claimed)."""
import json, os, sys
sys.path.insert(0, os.path.dirname(os.path.abspath(__file__)))
import props

ALL = ["C%02d" % i for i in range(1, 21)]
NA = {
    "C14": "program transformer over whole schema texts; oracle is the Go compiler and whole-file text equality over map orders — not encodable as bounded SMT queries over the real code within reach (DESIGN.md section 5)",
}
PENDING = "check not built yet in this session (solver-based design in DESIGN.md section 4); not claimed until its harness runs clean"

m = {
    "version": 1,
    "setup_cmd": "cd /verif/engine && GOFLAGS=-mod=mod GOPROXY=off GOSUMDB=off GOTOOLCHAIN=local go build -o /verif/bin/gosym . && /verif/bin/gosym -h 2>/dev/null; true",
    "hooks": {"guard": "verif", "enable": "harness files carry //go:build verif and are injected with go/packages Overlay / go test -overlay -tags verif; /repo sources are not modified by hooks",
              "baseline_off_cmd": "cd /repo && GOFLAGS=-mod=mod GOPROXY=off go test -vet=off -count=1 ./... && (cd telegram/deeplinks && GOFLAGS=-mod=mod GOPROXY=off go test -vet=off -count=1 ./...) && (cd internal/cmd/tlgen && GOFLAGS=-mod=mod GOPROXY=off go test -vet=off -count=1 ./...)",
              "source_commits": [], "add_only": True},
    "engines": [{"name": "gosym", "path": "/verif/engine", "serves_properties": sorted(props.PROPS.keys()),
                 "kind_free_text": "own bounded symbolic executor for go/ssa (x/tools v0.29.0) emitting SMT-LIB2 bit-vector queries to z3 4.8.12 / cvc5 1.0 / z3 5.1.0; counterexamples replayed natively with go test -overlay"}],
    "checks": [],
    "not_applicable": [],
    "notes": "see DESIGN.md; every claim is bounded (bounds in evidence.coverage.bounds and props.py)",
}
for pid in ALL:
    if pid in props.PROPS:
        sp = props.PROPS[pid]
        m["checks"].append({
            "property_id": pid,
            "quick_cmd": "./check %s --tier quick" % pid,
            "thorough_cmd": "./check %s --tier thorough" % pid,
            "evidence_file": "/verif/evidence/%s.json" % pid,
            "replay_cmd_template": "./check %s --replay {path}" % pid,
            "engine": "gosym",
            "level_claimed": {"category": "model_checking", "text": sp.get("level_text", "bounded symbolic execution of the real functions (go/ssa) with all inputs inside the stated bounds symbolic; each assertion discharged by an SMT solver (unsat = holds for every value inside the bounds)"), "design_ref": "DESIGN.md section 4 " + pid},
            "level_note": "; ".join(sp.get("assumptions", [])) + " | outside: " + sp.get("outside", ""),
            "technique": sp.get("technique", "bounded symbolic execution of go/ssa + SMT (z3/cvc5), counterexamples replayed natively"),
        })
    else:
        m["not_applicable"].append({"property_id": pid, "reason": NA.get(pid, PENDING)})
json.dump(m, open(os.path.join(os.path.dirname(os.path.abspath(__file__)), "MANIFEST.json"), "w"), indent=1)
print("MANIFEST.json: %d checks, %d not applicable" % (len(m["checks"]), len(m["not_applicable"])))
